#!/usr/bin/env python3
"""False-alarm probe: apply behaviour-preserving refactorings (DIR/rN.diff) to /repo one at a
time, run the Verus side, undo. Expected: no failed obligation (exit-0 or exit-2 behaviour)."""
import os, re, subprocess, sys, json
sys.path.insert(0, os.path.dirname(os.path.abspath(__file__)))
import verus_run
REPO = "/repo"
def sh(c): return subprocess.run(c, shell=True, stdout=subprocess.PIPE, stderr=subprocess.STDOUT, text=True)
assert sh("git -C %s status --porcelain" % REPO).stdout.strip() == "", "/repo not clean"
rows = []
for d in sys.argv[1:]:
    for f in sorted(os.listdir(d)):
        if not re.match(r"r\d+\.diff$", f):
            continue
        p = os.path.join(d, f)
        if sh("git -C %s apply %s" % (REPO, p)).returncode != 0:
            print(p, "does not apply"); continue
        try:
            res = verus_run.run(REPO)
            fails = [x["obligation"] for x in res.failures if "KF" not in x["tags"]]
            und = [u["reason"][:140] for u in res.undecided]
            verdict = "ALARM" if fails else ("undecided" if und else "quiet")
            print("%-28s %-9s fails=%s undecided=%s dropped=%s" % (os.path.basename(d) + "/" + f, verdict, fails[:4], und[:2], (res.anchors or {}).get("dropped_hints", [])[:3]), flush=True)
            rows.append({"patch": p, "verdict": verdict, "failed": fails, "undecided": und})
        finally:
            sh("git -C %s checkout -- ." % REPO)
json.dump(rows, open("/tmp/w0/refactor_probe.json", "w"), indent=1)
