// append-to: src/color.rs
// harness: k_color_rgb props=C08 fns=Color::rgb kind=complete tier=quick timeout=300 obligation=Color::rgb/E1
#[cfg(kani)]
mod verif_kani_color {
    use super::*;

    /// `Color::rgb(r, g, b)` is the RGB variant carrying exactly (r, g, b) — for every u8 triple
    /// (loop-free, fully symbolic: complete). This is what the uninterpreted `rgb_of(r, g, b)` of the
    /// Verus contract stands for.
    #[kani::proof]
    fn k_color_rgb() {
        let r: u8 = kani::any();
        let g: u8 = kani::any();
        let b: u8 = kani::any();
        let c = Color::rgb(r, g, b);
        match c {
            Color::RGB(v) => assert!(v.r == r && v.g == g && v.b == b),
            Color::Indexed(_) => assert!(false),
        }
        // injective: a different triple gives a different colour
        let r2: u8 = kani::any();
        let g2: u8 = kani::any();
        let b2: u8 = kani::any();
        let c2 = Color::rgb(r2, g2, b2);
        assert!((c == c2) == (r == r2 && g == g2 && b == b2));
        kani::cover!(r == 255 && g == 0 && b == 7);
    }
}
