// append-to: src/parser.rs
// harness: k_parser_new props=C19,C03 fns=Parser::new,Param_as_Default kind=complete tier=quick timeout=300 obligation=Parser::new/E1
// harness: k_parser_clear_0 props=C03,C08,C19 fns=Parser::clear kind=bounded tier=quick timeout=600 obligation=Parser::clear/E1,E2 bound="cur_param = 0, parameter fully symbolic"
// harness: k_parser_clear_2 props=C03,C08,C19 fns=Parser::clear kind=bounded tier=thorough timeout=1800 obligation=Parser::clear/E1,E2 bound="cur_param = 2, parameters fully symbolic"
// harness: k_parser_clear_31 props=C03,C08,C19 fns=Parser::clear kind=bounded tier=thorough timeout=1800 obligation=Parser::clear/E1,E2 bound="cur_param = 31, parameters 0, 1, 30, 31 fully symbolic"
// harness: k_csi_scalar_40 props=C03,C20 fns=Parser::csi_dispatch kind=complete tier=quick timeout=900 obligation=Parser::csi_dispatch/E1(scalar,0x40-0x47)
// harness: k_csi_scalar_48 props=C03,C20 fns=Parser::csi_dispatch kind=complete tier=quick timeout=900 obligation=Parser::csi_dispatch/E1(scalar,0x48-0x4f)
// harness: k_csi_scalar_50 props=C03,C20 fns=Parser::csi_dispatch kind=complete tier=quick timeout=900 obligation=Parser::csi_dispatch/E1(scalar,0x50-0x57)
// harness: k_csi_scalar_58 props=C03,C20 fns=Parser::csi_dispatch kind=complete tier=quick timeout=900 obligation=Parser::csi_dispatch/E1(scalar,0x58-0x5f)
// harness: k_csi_scalar_60 props=C03,C20 fns=Parser::csi_dispatch kind=complete tier=quick timeout=900 obligation=Parser::csi_dispatch/E1(scalar,0x60-0x67)
// harness: k_csi_scalar_68 props=C03,C20 fns=Parser::csi_dispatch kind=complete tier=quick timeout=900 obligation=Parser::csi_dispatch/E1(scalar,0x69-0x6b,0x6e,0x6f)
// harness: k_csi_scalar_70 props=C03,C20 fns=Parser::csi_dispatch kind=complete tier=quick timeout=900 obligation=Parser::csi_dispatch/E1(scalar,0x70-0x77)
// harness: k_csi_scalar_78 props=C03,C20 fns=Parser::csi_dispatch kind=complete tier=quick timeout=900 obligation=Parser::csi_dispatch/E1(scalar,0x78-0x7e)
// harness: k_csi_other props=C03,C20 fns=Parser::csi_dispatch kind=complete tier=quick timeout=600 obligation="Parser::csi_dispatch/E1(final outside 0x40-0x7e folded range)"
// harness: k_csi_lists_modes props=C03 fns=Parser::csi_dispatch kind=bounded tier=quick timeout=900 obligation="Parser::csi_dispatch/E1(SM,RM,DECSET,DECRST lists)" bound="four concrete parameter vectors (unknown modes first, in the middle, only)"
// harness: k_csi_lists_sgr props=C03,C08 fns=Parser::csi_dispatch,SgrOps kind=bounded tier=quick timeout=900 obligation="Parser::csi_dispatch/E1(SGR list)+SgrOps::next" bound="four concrete parameter vectors (48;5;n then a code; unknown code, 38;5;n, reset; 38 and 48 without a colour form; truncated 38;5; index 255 in both spellings; bright colours 90-97 / 100-107)"
// harness: k_sgr_step props=C03,C08 fns=SgrOps kind=bounded tier=thorough timeout=1800 obligation="SgrOps::next(one step)" bound="<= 5 remaining parameters, each fully symbolic (6 parts)"
//
// Kani units for the parts of parser.rs that are outside Verus's Rust subset (iterator chains,
// slice patterns, IterMut loop, derived Default).  Each restates the contract that Verus
// assumes (contracts/parser.spec / parser.extra.rs) as an executable reference.
#[cfg(kani)]
mod verif_kani_parser {
    use super::*;

    fn any_param() -> Param {
        // Param::wf(): cur_part < 6 and everything above the high-water mark is zero
        let cur_part: usize = kani::any();
        kani::assume(cur_part < MAX_PARAM_LEN);
        let raw: [u16; MAX_PARAM_LEN] = kani::any();
        let parts = [
            raw[0],
            if cur_part >= 1 { raw[1] } else { 0 },
            if cur_part >= 2 { raw[2] } else { 0 },
            if cur_part >= 3 { raw[3] } else { 0 },
            if cur_part >= 4 { raw[4] } else { 0 },
            if cur_part >= 5 { raw[5] } else { 0 },
        ];
        Param { cur_part, parts }
    }

    fn zero_param(p: &Param) -> bool {
        p.cur_part == 0 && p.parts == [0u16; MAX_PARAM_LEN]
    }

    /// symbolic parser satisfying Parser::wf() with at most `k` (<= 4) live parameters
    fn any_parser(k: usize) -> Parser {
        let mut p = Parser::new();
        let cur: usize = kani::any();
        kani::assume(cur < k);
        p.cur_param = cur;
        p.params[0] = any_param();
        if k > 1 && cur >= 1 { p.params[1] = any_param(); }
        if k > 2 && cur >= 2 { p.params[2] = any_param(); }
        if k > 3 && cur >= 3 { p.params[3] = any_param(); }
        p.intermediate = if kani::any() { Some(kani::any()) } else { None };
        p.state = State::Ground;
        p
    }

    #[kani::proof]
    #[kani::unwind(34)]
    fn k_parser_new() {
        let p = Parser::new();
        assert!(p.state == State::Ground);
        assert!(p.cur_param == 0 && p.intermediate.is_none());
        let mut i = 0;
        while i < PARAMS_LEN {
            assert!(zero_param(&p.params[i]));
            i += 1;
        }
        assert!(PARAMS_LEN == 32 && MAX_PARAM_LEN == 6);
        kani::cover!(true);
    }

    fn clear_case(cur: usize) {
        let mut p = Parser::new();
        p.cur_param = cur;
        p.params[0] = any_param();
        if cur >= 1 { p.params[1] = any_param(); }
        if cur >= 2 { p.params[2] = any_param(); }
        if cur >= 30 { p.params[30] = any_param(); }
        if cur >= 31 { p.params[31] = any_param(); }
        p.intermediate = if kani::any() { Some(kani::any()) } else { None };
        let st: u8 = kani::any();
        p.state = if st == 0 { State::Escape } else if st == 1 { State::CsiEntry } else { State::DcsEntry };
        let st0 = p.state;
        p.clear();
        assert!(p.cur_param == 0 && p.intermediate.is_none() && p.state == st0);
        let mut j = 0;
        while j < PARAMS_LEN {
            assert!(zero_param(&p.params[j]));
            j += 1;
        }
        kani::cover!(true);
    }

    #[kani::proof]
    #[kani::unwind(34)]
    fn k_parser_clear_0() { clear_case(0) }
    #[kani::proof]
    #[kani::unwind(34)]
    fn k_parser_clear_2() { clear_case(2) }
    #[kani::proof]
    #[kani::unwind(34)]
    fn k_parser_clear_31() { clear_case(31) }

    /// executable copy of spec fn csi_scalar (contracts/parser.extra.rs)
    fn ref_scalar(p0: u16, p1: u16, p2: u16, intermediate: Option<char>, c: char) -> Option<Function> {
        use Function::*;
        match intermediate {
            None => match c {
                '@' => Some(Ich(p0)), 'A' => Some(Cuu(p0)), 'B' => Some(Cud(p0)), 'C' => Some(Cuf(p0)),
                'D' => Some(Cub(p0)), 'E' => Some(Cnl(p0)), 'F' => Some(Cpl(p0)), 'G' => Some(Cha(p0)),
                'H' => Some(Cup(p0, p1)), 'I' => Some(Cht(p0)),
                'J' => if p0 == 0 { Some(Ed(EdScope::Below)) } else if p0 == 1 { Some(Ed(EdScope::Above)) } else if p0 == 2 { Some(Ed(EdScope::All)) } else if p0 == 3 { Some(Ed(EdScope::SavedLines)) } else { None },
                'K' => if p0 == 0 { Some(El(ElScope::ToRight)) } else if p0 == 1 { Some(El(ElScope::ToLeft)) } else if p0 == 2 { Some(El(ElScope::All)) } else { None },
                'L' => Some(Il(p0)), 'M' => Some(Dl(p0)), 'P' => Some(Dch(p0)), 'S' => Some(Su(p0)), 'T' => Some(Sd(p0)),
                'W' => if p0 == 0 { Some(Ctc(CtcOp::Set)) } else if p0 == 2 { Some(Ctc(CtcOp::ClearCurrentColumn)) } else if p0 == 5 { Some(Ctc(CtcOp::ClearAll)) } else { None },
                'X' => Some(Ech(p0)), 'Z' => Some(Cbt(p0)), '`' => Some(Cha(p0)), 'a' => Some(Cuf(p0)), 'b' => Some(Rep(p0)),
                'd' => Some(Vpa(p0)), 'e' => Some(Vpr(p0)), 'f' => Some(Cup(p0, p1)),
                'g' => if p0 == 0 { Some(Tbc(TbcScope::CurrentColumn)) } else if p0 == 3 { Some(Tbc(TbcScope::All)) } else { None },
                'r' => Some(Decstbm(p0, p1)), 's' => Some(Scosc),
                't' => if p0 == 8 { Some(Xtwinops(XtwinopsOp::Resize(p2, p1))) } else { None },
                'u' => Some(Scorc),
                _ => None,
            },
            Some(i) => if i == '!' && c == 'p' { Some(Decstr) } else { None },
        }
    }

    fn is_vec_final(intermediate: Option<char>, c: char) -> bool {
        match intermediate {
            None => c == 'h' || c == 'l' || c == 'm',
            Some(i) => i == '?' && (c == 'h' || c == 'l'),
        }
    }

    /// scalar view of a dispatched function: (variant tag, first argument, second argument);
    /// list-valued variants map to tag 255 (they never occur for the scalar finals)
    fn key(f: &Option<Function>) -> (u8, u16, u16) {
        use Function::*;
        match f {
            None => (0, 0, 0),
            Some(Bs) => (1, 0, 0), Some(Cbt(n)) => (2, *n, 0), Some(Cha(n)) => (3, *n, 0), Some(Cht(n)) => (4, *n, 0),
            Some(Cnl(n)) => (5, *n, 0), Some(Cpl(n)) => (6, *n, 0), Some(Cr) => (7, 0, 0),
            Some(Ctc(CtcOp::Set)) => (8, 0, 0), Some(Ctc(CtcOp::ClearCurrentColumn)) => (8, 1, 0), Some(Ctc(CtcOp::ClearAll)) => (8, 2, 0),
            Some(Cub(n)) => (9, *n, 0), Some(Cud(n)) => (10, *n, 0), Some(Cuf(n)) => (11, *n, 0), Some(Cup(a, b)) => (12, *a, *b),
            Some(Cuu(n)) => (13, *n, 0), Some(Dch(n)) => (14, *n, 0), Some(Decaln) => (15, 0, 0), Some(Decrc) => (16, 0, 0),
            Some(Decsc) => (17, 0, 0), Some(Decstbm(a, b)) => (18, *a, *b), Some(Decstr) => (19, 0, 0), Some(Dl(n)) => (20, *n, 0),
            Some(Ech(n)) => (21, *n, 0),
            Some(Ed(EdScope::Below)) => (22, 0, 0), Some(Ed(EdScope::Above)) => (22, 1, 0), Some(Ed(EdScope::All)) => (22, 2, 0), Some(Ed(EdScope::SavedLines)) => (22, 3, 0),
            Some(El(ElScope::ToRight)) => (23, 0, 0), Some(El(ElScope::ToLeft)) => (23, 1, 0), Some(El(ElScope::All)) => (23, 2, 0),
            Some(G1d4(Charset::Ascii)) => (24, 0, 0), Some(G1d4(Charset::Drawing)) => (24, 1, 0),
            Some(Gzd4(Charset::Ascii)) => (25, 0, 0), Some(Gzd4(Charset::Drawing)) => (25, 1, 0),
            Some(Ht) => (26, 0, 0), Some(Hts) => (27, 0, 0), Some(Ich(n)) => (28, *n, 0), Some(Il(n)) => (29, *n, 0),
            Some(Lf) => (30, 0, 0), Some(Nel) => (31, 0, 0), Some(Print(c)) => (32, *c as u16, ((*c as u32) >> 16) as u16),
            Some(Rep(n)) => (33, *n, 0), Some(Ri) => (34, 0, 0), Some(Ris) => (35, 0, 0), Some(Scorc) => (36, 0, 0), Some(Scosc) => (37, 0, 0),
            Some(Sd(n)) => (38, *n, 0), Some(Si) => (39, 0, 0), Some(So) => (40, 0, 0), Some(Su(n)) => (41, *n, 0),
            Some(Tbc(TbcScope::CurrentColumn)) => (42, 0, 0), Some(Tbc(TbcScope::All)) => (42, 1, 0),
            Some(Vpa(n)) => (43, *n, 0), Some(Vpr(n)) => (44, *n, 0), Some(Xtwinops(XtwinopsOp::Resize(a, b))) => (45, *a, *b),
            Some(Decrst(_)) | Some(Decset(_)) | Some(Rm(_)) | Some(Sm(_)) | Some(Sgr(_)) => (255, 0, 0),
        }
    }

    /// one symbolic parser (three live parameters, any intermediate), dispatched with each of
    /// the given CONCRETE final bytes
    fn scalar_finals(finals: &[u8]) {
        let mut p = Parser::new();
        p.cur_param = kani::any();
        kani::assume(p.cur_param < 3);
        let v: [u16; 3] = kani::any();
        p.params[0].parts[0] = v[0];
        p.params[1].parts[0] = v[1];
        p.params[2].parts[0] = v[2];
        let inter: Option<char> = if kani::any() { Some(kani::any()) } else { None };
        p.intermediate = inter;
        let cur = p.cur_param;
        let mut k = 0;
        while k < finals.len() {
            let c = finals[k] as char;
            if !is_vec_final(inter, c) {
                let r = p.csi_dispatch(c);
                assert!(key(&r) == key(&ref_scalar(v[0], v[1], v[2], inter, c)));
                // dispatch leaves the parser untouched
                assert!(p.cur_param == cur && p.intermediate == inter);
                assert!(p.params[0].parts[0] == v[0] && p.params[1].parts[0] == v[1] && p.params[2].parts[0] == v[2]);
            }
            k += 1;
        }
        kani::cover!(inter == Some('!'));
    }

    #[kani::proof]
    #[kani::unwind(34)]
    fn k_csi_scalar_40() { scalar_finals(&[0x40, 0x41, 0x42, 0x43, 0x44, 0x45, 0x46, 0x47]) }
    #[kani::proof]
    #[kani::unwind(34)]
    fn k_csi_scalar_48() { scalar_finals(&[0x48, 0x49, 0x4a, 0x4b, 0x4c, 0x4d, 0x4e, 0x4f]) }
    #[kani::proof]
    #[kani::unwind(34)]
    fn k_csi_scalar_50() { scalar_finals(&[0x50, 0x51, 0x52, 0x53, 0x54, 0x55, 0x56, 0x57]) }
    #[kani::proof]
    #[kani::unwind(34)]
    fn k_csi_scalar_58() { scalar_finals(&[0x58, 0x59, 0x5a, 0x5b, 0x5c, 0x5d, 0x5e, 0x5f]) }
    #[kani::proof]
    #[kani::unwind(34)]
    fn k_csi_scalar_60() { scalar_finals(&[0x60, 0x61, 0x62, 0x63, 0x64, 0x65, 0x66, 0x67]) }
    #[kani::proof]
    #[kani::unwind(34)]
    fn k_csi_scalar_68() { scalar_finals(&[0x69, 0x6a, 0x6b, 0x6e, 0x6f]) }
    #[kani::proof]
    #[kani::unwind(34)]
    fn k_csi_scalar_70() { scalar_finals(&[0x70, 0x71, 0x72, 0x73, 0x74, 0x75, 0x76, 0x77]) }
    #[kani::proof]
    #[kani::unwind(34)]
    fn k_csi_scalar_78() { scalar_finals(&[0x78, 0x79, 0x7a, 0x7b, 0x7c, 0x7d, 0x7e]) }

    #[kani::proof]
    #[kani::unwind(34)]
    fn k_csi_other() {
        // csi_dispatch receives the unfolded input: any char outside 0x40..=0x7e (e.g. a code
        // point >= U+00A0 folded to 'A' by feed) must dispatch to nothing
        let c: char = kani::any();
        kani::assume(!('\u{40}'..='\u{7e}').contains(&c));
        // the parameters play no part for such a character (no arm can match): concrete zeros, any marker
        let mut p = Parser::new();
        p.intermediate = if kani::any() { Some(kani::any()) } else { None };
        let r = p.csi_dispatch(c);
        assert!(r.is_none());
        kani::cover!(c as u32 > 0xa0);
    }

    fn ref_ansi(v: u16) -> Option<AnsiMode> {
        if v == 4 { Some(AnsiMode::Insert) } else if v == 20 { Some(AnsiMode::NewLine) } else { None }
    }

    fn ref_dec(v: u16) -> Option<DecMode> {
        match v {
            1 => Some(DecMode::CursorKeys), 6 => Some(DecMode::Origin), 7 => Some(DecMode::AutoWrap),
            25 => Some(DecMode::TextCursorEnable), 47 | 1047 => Some(DecMode::AltScreenBuffer),
            1048 => Some(DecMode::SaveCursor), 1049 => Some(DecMode::SaveCursorAltScreenBuffer), _ => None,
        }
    }

    fn set_params(p: &mut Parser, vals: &[u16]) {
        let mut i = 0;
        while i < vals.len() {
            p.params[i].parts[0] = vals[i];
            i += 1;
        }
        p.cur_param = vals.len() - 1;
    }

    /// [C03] list-valued finals on CONCRETE parameter vectors (symbolic vectors make CBMC run out
    /// of time inside `collect()`): unrecognised modes are skipped wherever they stand, order kept
    #[kani::proof]
    #[kani::unwind(34)]
    fn k_csi_lists_modes() {
        let mut p = Parser::new();
        set_params(&mut p, &[9999, 1, 0, 25]);
        p.intermediate = Some('?');
        match p.csi_dispatch('h') {
            Some(Function::Decset(v)) => assert!(v.len() == 2 && v[0] == DecMode::CursorKeys && v[1] == DecMode::TextCursorEnable),
            _ => assert!(false),
        }
        let mut p = Parser::new();
        set_params(&mut p, &[1049, 3, 6]);
        p.intermediate = Some('?');
        match p.csi_dispatch('l') {
            Some(Function::Decrst(v)) => assert!(v.len() == 2 && v[0] == DecMode::SaveCursorAltScreenBuffer && v[1] == DecMode::Origin),
            _ => assert!(false),
        }
        let mut p = Parser::new();
        set_params(&mut p, &[7, 4, 20]);
        match p.csi_dispatch('h') {
            Some(Function::Sm(v)) => assert!(v.len() == 2 && v[0] == AnsiMode::Insert && v[1] == AnsiMode::NewLine),
            _ => assert!(false),
        }
        let mut p = Parser::new();
        set_params(&mut p, &[5]);
        match p.csi_dispatch('l') {
            Some(Function::Rm(v)) => assert!(v.len() == 0),
            _ => assert!(false),
        }
        kani::cover!(true);
    }

    /// [C03,C08] SGR lists on concrete vectors: the 38;5;n / 48;5;n / 38;2;r;g;b forms consume
    /// exactly their parameters, unknown codes are skipped one at a time
    #[kani::proof]
    #[kani::unwind(34)]
    fn k_csi_lists_sgr() {
        let mut p = Parser::new();
        set_params(&mut p, &[48, 5, 1, 3]);
        match p.csi_dispatch('m') {
            Some(Function::Sgr(v)) => assert!(v.len() == 2 && v[0] == SgrOp::SetBackgroundColor(Color::Indexed(1)) && v[1] == SgrOp::SetItalic),
            _ => assert!(false),
        }
        let mut p = Parser::new();
        set_params(&mut p, &[6, 1, 38, 5, 9, 0]);
        match p.csi_dispatch('m') {
            Some(Function::Sgr(v)) => assert!(v.len() == 3 && v[0] == SgrOp::SetBoldIntensity && v[1] == SgrOp::SetForegroundColor(Color::Indexed(9)) && v[2] == SgrOp::Reset),
            _ => assert!(false),
        }
        // 38 / 48 followed by something that is neither ;2 nor ;5: only the 38 / 48 itself is skipped
        let mut p = Parser::new();
        set_params(&mut p, &[38, 1, 48, 3]);
        match p.csi_dispatch('m') {
            Some(Function::Sgr(v)) => assert!(v.len() == 2 && v[0] == SgrOp::SetBoldIntensity && v[1] == SgrOp::SetItalic),
            _ => assert!(false),
        }
        // the whole 0..=255 index range, semicolon and colon spelling
        let mut p = Parser::new();
        set_params(&mut p, &[38, 5, 255, 48, 5, 255]);
        match p.csi_dispatch('m') {
            Some(Function::Sgr(v)) => assert!(v.len() == 2 && v[0] == SgrOp::SetForegroundColor(Color::Indexed(255)) && v[1] == SgrOp::SetBackgroundColor(Color::Indexed(255))),
            _ => assert!(false),
        }
        let mut p = Parser::new();
        p.params[0].parts[0] = 38;
        p.params[0].parts[1] = 5;
        p.params[0].parts[2] = 255;
        p.params[0].cur_part = 2;
        p.cur_param = 0;
        match p.csi_dispatch('m') {
            Some(Function::Sgr(v)) => assert!(v.len() == 1 && v[0] == SgrOp::SetForegroundColor(Color::Indexed(255))),
            _ => assert!(false),
        }
        // bright colours: 90-97 and 100-107 select indices 8-15
        let mut p = Parser::new();
        set_params(&mut p, &[101, 95, 107, 90]);
        match p.csi_dispatch('m') {
            Some(Function::Sgr(v)) => assert!(v.len() == 4 && v[0] == SgrOp::SetBackgroundColor(Color::Indexed(9)) && v[1] == SgrOp::SetForegroundColor(Color::Indexed(13))
                && v[2] == SgrOp::SetBackgroundColor(Color::Indexed(15)) && v[3] == SgrOp::SetForegroundColor(Color::Indexed(8))),
            _ => assert!(false),
        }
        // truncated 38;5 : both are dropped, nothing else
        let mut p = Parser::new();
        set_params(&mut p, &[4, 38, 5]);
        match p.csi_dispatch('m') {
            Some(Function::Sgr(v)) => assert!(v.len() == 1 && v[0] == SgrOp::SetUnderline),
            _ => assert!(false),
        }
        kani::cover!(true);
    }

    /// reference decoder for one SGR step, written from the table of the property (C08):
    /// returns (operation or None for "skipped", parameters consumed)
    fn ref_sgr_step(ps: &[Param]) -> (Option<SgrOp>, usize) {
        use SgrOp::*;
        let p = &ps[0];
        let n = p.cur_part + 1;      // number of sub-parameters
        let v = p.parts[0];
        if n == 1 {
            let simple = match v {
                0 => Some(Reset), 1 => Some(SetBoldIntensity), 2 => Some(SetFaintIntensity), 3 => Some(SetItalic),
                4 => Some(SetUnderline), 5 => Some(SetBlink), 7 => Some(SetInverse), 9 => Some(SetStrikethrough),
                21 | 22 => Some(ResetIntensity), 23 => Some(ResetItalic), 24 => Some(ResetUnderline), 25 => Some(ResetBlink),
                27 => Some(ResetInverse), 29 => Some(ResetStrikethrough), 39 => Some(ResetForegroundColor), 49 => Some(ResetBackgroundColor),
                _ => None,
            };
            if simple.is_some() { return (simple, 1); }
            if v >= 30 && v <= 37 { return (Some(SetForegroundColor(Color::Indexed((v - 30) as u8))), 1); }
            if v >= 40 && v <= 47 { return (Some(SetBackgroundColor(Color::Indexed((v - 40) as u8))), 1); }
            if v >= 90 && v <= 97 { return (Some(SetForegroundColor(Color::Indexed((v - 90 + 8) as u8))), 1); }
            if v >= 100 && v <= 107 { return (Some(SetBackgroundColor(Color::Indexed((v - 100 + 8) as u8))), 1); }
            if v == 38 || v == 48 {
                // ';' forms: 38;5;n  and  38;2;r;g;b
                if ps.len() < 2 { return (None, 1); }
                let q = &ps[1];
                if q.cur_part == 0 && q.parts[0] == 5 {
                    if ps.len() >= 3 {
                        let c = Color::Indexed(ps[2].parts[0] as u8);
                        return (Some(if v == 38 { SetForegroundColor(c) } else { SetBackgroundColor(c) }), 3);
                    }
                    return (None, 2);
                }
                if q.cur_part == 0 && q.parts[0] == 2 {
                    if ps.len() >= 5 {
                        let c = Color::rgb(ps[2].parts[0] as u8, ps[3].parts[0] as u8, ps[4].parts[0] as u8);
                        return (Some(if v == 38 { SetForegroundColor(c) } else { SetBackgroundColor(c) }), 5);
                    }
                    return (None, 2);
                }
                return (None, 1);
            }
            return (None, 1);
        }
        // ':' forms
        if v == 38 || v == 48 {
            let mk = |c: Color| if v == 38 { SetForegroundColor(c) } else { SetBackgroundColor(c) };
            if n == 3 && p.parts[1] == 5 { return (Some(mk(Color::Indexed(p.parts[2] as u8))), 1); }
            if n == 5 && p.parts[1] == 2 { return (Some(mk(Color::rgb(p.parts[2] as u8, p.parts[3] as u8, p.parts[4] as u8))), 1); }
            if n == 6 && p.parts[1] == 2 { return (Some(mk(Color::rgb(p.parts[3] as u8, p.parts[4] as u8, p.parts[5] as u8))), 1); }
        }
        (None, 1)
    }

    #[kani::proof]
    #[kani::unwind(8)]
    fn k_sgr_step() {
        // a slice of 1..=5 fully symbolic parameters; the real iterator's first result must be
        // the first non-skipped operation of the reference, and it must stop in the same place
        let len: usize = kani::any();
        kani::assume(len >= 1 && len <= 5);
        let all = [any_param(), any_param(), any_param(), any_param(), any_param()];
        let ps = &all[..len];
        let mut it = SgrOps { ps };
        let got = it.next();
        // reference: skip until an operation is produced or the slice is exhausted
        let mut off = 0;
        let mut want: Option<SgrOp> = None;
        let mut steps = 0;
        while off < len && steps < 6 {
            let (op, used) = ref_sgr_step(&ps[off..]);
            off += used;
            if op.is_some() {
                want = op;
                break;
            }
            steps += 1;
        }
        assert!(got == want);
        assert!(it.ps.len() == len - if off > len { len } else { off });
        kani::cover!(got.is_some() && len == 5);
    }

}
