// append-to: src/terminal/dirty_lines.rs
// harness: k_dirty_to_vec props=C02,C15 kind=bounded tier=quick timeout=600 obligation=DirtyLines::to_vec/E1,E2,E3 bound="rows <= 6"
#[cfg(kani)]
mod verif_kani_dirty_lines {
    use super::*;

    #[kani::proof]
    #[kani::unwind(8)]
    fn k_dirty_to_vec() {
        let len: usize = kani::any();
        kani::assume(len <= 6);
        let mut d = DirtyLines::new(len);
        let flags: [bool; 6] = kani::any();
        let mut i = 0;
        while i < len {
            d.0[i] = flags[i];
            i += 1;
        }
        let v = d.to_vec();
        // [C02] strictly increasing, all below len; [C15] exactly the set flags
        let mut j = 1;
        while j < v.len() {
            assert!(v[j - 1] < v[j]);
            j += 1;
        }
        let k: usize = kani::any();
        kani::assume(k < 6);
        assert_eq!(v.contains(&k), k < len && flags[k]);
        let mut j = 0;
        while j < v.len() {
            assert!(v[j] < len);
            j += 1;
        }
        kani::cover!(v.len() == 3);
    }
}
