// append-to: src/terminal/dirty_lines.rs
// harness: k_dirty_to_vec props=C02,C15 fns=DirtyLines::to_vec kind=bounded tier=quick timeout=600 obligation=DirtyLines::to_vec/E1,E2,E3 bound="rows = 5 (all 32 flag combinations)"
#[cfg(kani)]
mod verif_kani_dirty_lines {
    use super::*;

    #[kani::proof]
    #[kani::unwind(7)]
    fn k_dirty_to_vec() {
        let flags: [bool; 5] = kani::any();
        let mut d = DirtyLines::new(5);
        d.0[0] = flags[0];
        d.0[1] = flags[1];
        d.0[2] = flags[2];
        d.0[3] = flags[3];
        d.0[4] = flags[4];
        let v = d.to_vec();
        // [C02] strictly increasing, all below the length; [C15] exactly the set flags
        let mut j = 1;
        while j < v.len() {
            assert!(v[j - 1] < v[j]);
            j += 1;
        }
        let mut j = 0;
        while j < v.len() {
            assert!(v[j] < 5 && flags[v[j]]);
            j += 1;
        }
        let mut n = 0;
        let mut k = 0;
        while k < 5 {
            if flags[k] {
                n += 1;
            }
            k += 1;
        }
        assert!(v.len() == n);
        kani::cover!(v.len() == 3);
    }
}
