// append-to: src/tabs.rs
// harness: k_tabs_new props=C18,C05,C19 fns=Tabs::new kind=bounded tier=quick timeout=300 obligation=Tabs::new/E1 bound="cols <= 48"
// harness: k_tabs_expand_0 props=C18,C05 fns=Tabs::expand kind=bounded tier=quick timeout=600 obligation=Tabs::expand/E1 bound="start = 0, end <= 40"
// harness: k_tabs_expand_7 props=C18,C05 fns=Tabs::expand kind=bounded tier=quick timeout=600 obligation=Tabs::expand/E1 bound="start = 7, end <= 40"
// harness: k_tabs_expand_8 props=C18,C05 fns=Tabs::expand kind=bounded tier=quick timeout=600 obligation=Tabs::expand/E1 bound="start = 8, end <= 40"
// harness: k_tabs_expand_9 props=C18,C05 fns=Tabs::expand kind=bounded tier=quick timeout=600 obligation=Tabs::expand/E1 bound="start = 9, end <= 40"
// harness: k_tabs_expand_16 props=C18,C05 fns=Tabs::expand kind=bounded tier=quick timeout=600 obligation=Tabs::expand/E1 bound="start = 16, end <= 40"
// harness: k_tabs_expand_17 props=C18,C05 fns=Tabs::expand kind=bounded tier=thorough timeout=600 obligation=Tabs::expand/E1 bound="start = 17, end <= 40"
// harness: k_tabs_expand_24 props=C18,C05 fns=Tabs::expand kind=bounded tier=thorough timeout=600 obligation=Tabs::expand/E1 bound="start = 24, end <= 40"
// harness: k_tabs_contract props=C18,C05 fns=Tabs::contract kind=bounded tier=quick timeout=300 obligation=Tabs::contract/E1 bound="stops of width 40 plus one custom stop, pos <= 48"
// harness: k_tabs_set_unset props=C18,C05 fns=Tabs::set,Tabs::unset kind=bounded tier=quick timeout=600 obligation=Tabs::set/E1,E2+Tabs::unset/E1,E2 bound="stops of width 33 plus one custom stop, pos <= 40"
// harness: k_tabs_after_before props=C18,C05 fns=Tabs::after,Tabs::before kind=bounded tier=quick timeout=600 obligation=Tabs::after/E1+Tabs::before/E1 bound="stops of width 41 plus one custom stop, pos <= 48, n <= 4"
//
// Kani units for src/tabs.rs: the contracts that Verus assumes for these functions
// (contracts/tabs.spec: default_tabs, mult8_in, tabs_below, tabs_upto) are re-stated here as
// executable reference computations and checked against the REAL functions.
#[cfg(kani)]
mod verif_kani_tabs {
    use super::*;

    /// executable copy of spec fn default_tabs(cols): 8, 16, ... < cols
    fn ref_default(cols: usize, t: usize) -> bool {
        t >= 8 && t % 8 == 0 && t < cols
    }

    fn sorted(v: &[usize]) -> bool {
        let mut i = 1;
        while i < v.len() {
            if v[i - 1] >= v[i] {
                return false;
            }
            i += 1;
        }
        true
    }

    #[kani::proof]
    #[kani::unwind(9)]
    fn k_tabs_new() {
        let cols: usize = kani::any();
        kani::assume(cols <= 48);
        let tabs = Tabs::new(cols);
        assert!(sorted(&tabs.0));
        // membership: exactly the multiples of 8 in 8..cols
        let t: usize = kani::any();
        kani::assume(t <= 56);
        assert_eq!(tabs.0.contains(&t), ref_default(cols, t));
        // count (so that there are no duplicates / extra stops)
        let expect = if cols >= 1 { (cols - 1) / 8 } else { 0 };
        assert_eq!(tabs.0.len(), expect);
        kani::cover!(tabs.0.len() == 5);
    }

    fn expand_case(start: usize) {
        let end: usize = kani::any();
        kani::assume(start <= end && end <= 40);
        let mut tabs = Tabs(vec![3]);
        tabs.expand(start, end);
        // [C18] old stops kept, then exactly the multiples of 8 in start..end (start included)
        assert!(tabs.0.len() >= 1 && tabs.0[0] == 3);
        let t: usize = kani::any();
        kani::assume(t <= 48);
        let added = tabs.0[1..].contains(&t);
        assert_eq!(added, t >= 8 && t % 8 == 0 && start <= t && t < end);
        assert!(sorted(&tabs.0[1..]));
        kani::cover!(tabs.0.len() > 2);
    }

    #[kani::proof]
    #[kani::unwind(7)]
    fn k_tabs_expand_0() { expand_case(0) }
    #[kani::proof]
    #[kani::unwind(7)]
    fn k_tabs_expand_7() { expand_case(7) }
    #[kani::proof]
    #[kani::unwind(7)]
    fn k_tabs_expand_8() { expand_case(8) }
    #[kani::proof]
    #[kani::unwind(7)]
    fn k_tabs_expand_9() { expand_case(9) }
    #[kani::proof]
    #[kani::unwind(7)]
    fn k_tabs_expand_16() { expand_case(16) }
    #[kani::proof]
    #[kani::unwind(7)]
    fn k_tabs_expand_17() { expand_case(17) }
    #[kani::proof]
    #[kani::unwind(7)]
    fn k_tabs_expand_24() { expand_case(24) }

    fn custom(cols: usize) -> Tabs {
        // default stops of `cols` plus one custom stop chosen symbolically
        let mut v = vec![];
        let mut t = 8;
        while t < cols {
            v.push(t);
            t += 8;
        }
        let extra: usize = kani::any();
        kani::assume(extra >= 1 && extra < cols && extra % 8 != 0);
        let mut i = 0;
        while i < v.len() && v[i] < extra {
            i += 1;
        }
        v.insert(i, extra);
        Tabs(v)
    }

    #[kani::proof]
    #[kani::unwind(8)]
    fn k_tabs_contract() {
        let mut tabs = custom(40);
        let before = tabs.0.clone();
        let pos: usize = kani::any();
        kani::assume(pos <= 48);
        tabs.contract(pos);
        // [C18] exactly the stops below `pos` survive, in order
        let mut below = 0;
        let mut i = 0;
        while i < before.len() {
            if before[i] < pos {
                below += 1;
            }
            i += 1;
        }
        assert_eq!(tabs.0.len(), below);
        let mut i = 0;
        while i < tabs.0.len() {
            assert_eq!(tabs.0[i], before[i]);
            i += 1;
        }
        kani::cover!(below == 3);
    }

    #[kani::proof]
    #[kani::unwind(8)]
    fn k_tabs_set_unset() {
        let mut tabs = custom(33);
        let before = tabs.0.clone();
        let pos: usize = kani::any();
        kani::assume(pos <= 40);
        let t: usize = kani::any();
        kani::assume(t <= 48);
        if kani::any() {
            tabs.set(pos);
            assert!(sorted(&tabs.0));
            assert_eq!(tabs.0.contains(&t), before.contains(&t) || t == pos);
        } else {
            tabs.unset(pos);
            assert!(sorted(&tabs.0));
            assert_eq!(tabs.0.contains(&t), before.contains(&t) && t != pos);
        }
        kani::cover!(tabs.0.len() == before.len() + 1);
    }

    #[kani::proof]
    #[kani::unwind(9)]
    fn k_tabs_after_before() {
        let tabs = custom(41);
        let pos: usize = kani::any();
        kani::assume(pos <= 48);
        let n: usize = kani::any();
        kani::assume(n >= 1 && n <= 4);
        // reference: tabs_upto / tabs_below by linear scan over the sorted stops
        let mut upto = 0;
        let mut below = 0;
        let mut i = 0;
        while i < tabs.0.len() {
            if tabs.0[i] <= pos {
                upto += 1;
            }
            if tabs.0[i] < pos {
                below += 1;
            }
            i += 1;
        }
        let want_after = if upto + n - 1 < tabs.0.len() { Some(tabs.0[upto + n - 1]) } else { None };
        let want_before = if n <= below { Some(tabs.0[below - n]) } else { None };
        assert_eq!(tabs.after(pos, n), want_after);
        assert_eq!(tabs.before(pos, n), want_before);
        kani::cover!(want_after.is_some() && want_before.is_some());
    }
}
