// append-to: src/util.rs
// harness: k_unwrapper_new props=C09 fns=TextUnwrapper::new kind=complete tier=quick timeout=300 obligation=TextUnwrapper::new/E1
#[cfg(kani)]
mod verif_kani_util {
    use super::*;

    /// `TextUnwrapper::new()` (derived `Default`) starts with no pending text. No input: complete.
    #[kani::proof]
    fn k_unwrapper_new() {
        let tu = TextUnwrapper::new();
        assert!(tu.wrapped_line.is_empty());
        assert!(tu.wrapped_line.len() == 0);
        kani::cover!(true);
    }
}
