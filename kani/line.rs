// append-to: src/line.rs
// harness: k_line_trailers props=C10,C09 fns=Line::trailers,Line::is_blank kind=bounded tier=quick timeout=600 obligation=Line::trailers/E1+Line::trim/E1+Line::is_blank/E1 bound="width <= 3, cells from {default blank, 'a', blank with a non-default pen, U+00A0}"
// harness: k_line_expand props=C10,C02 fns=Line::expand kind=bounded tier=quick timeout=600 obligation=Line::expand/E1 bound="width <= 2 expanded to <= 3, symbolic pen flag"
// harness: k_line_contract_1 props=C10 fns=Line::trailers kind=bounded tier=thorough timeout=900 obligation="Line::contract(no cell lost or invented; only trailing default cells of an unwrapped row dropped)" bound="row width 1..3 contracted to 1"
// harness: k_line_contract_2 props=C10 fns=Line::trailers kind=bounded tier=thorough timeout=900 obligation=Line::contract bound="row width 1..3 contracted to 2"
// harness: k_line_text_1 props=C09 fns=Line::text,Line::chars kind=bounded tier=quick timeout=600 obligation=Line::text/E1 bound="width 1, cell from {default blank, 'a', blank with a non-default pen, U+00A0, U+0301}"
// harness: k_line_text_2 props=C09 fns=Line::text,Line::chars kind=bounded tier=quick timeout=900 obligation=Line::text/E1 bound="width 2, cells from {default blank, 'a', blank with a non-default pen, U+00A0, U+0301}"
// harness: k_line_text_3 props=C09 fns=Line::text,Line::chars kind=bounded tier=thorough timeout=1200 obligation=Line::text/E1 bound="width 3, cells from {default blank, 'a', U+0301}"
#[cfg(kani)]
mod verif_kani_line {
    use super::*;

    fn italic() -> Pen {
        let mut p = Pen::default();
        p.set_italic();
        p
    }

    /// 0: default blank, 1: 'a', 2: blank carrying a non-default pen (not a default cell),
    /// 3: U+00A0 in the default pen (a printable character, not padding),
    /// 4 (text units only): U+0301, a zero-width combining mark in a cell of its own
    fn cell_of(kind: u8) -> Cell {
        if kind == 0 { Cell::blank(Pen::default()) } else if kind == 1 { Cell::new('a', Pen::default()) } else if kind == 2 { Cell::blank(italic()) } else if kind == 3 { Cell::new('\u{a0}', Pen::default()) } else { Cell::new('\u{301}', Pen::default()) }
    }

    fn kind_of(c: &Cell) -> u8 {
        if c.char() == 'a' { 1 } else if c.char() == '\u{a0}' { 3 } else if c.pen().is_default() { 0 } else { 2 }
    }

    fn any_kinds() -> [u8; 3] {
        let k: [u8; 3] = kani::any();
        kani::assume(k[0] < 4 && k[1] < 4 && k[2] < 4);
        k
    }

    fn mk_line(width: usize, kinds: &[u8; 3], wrapped: bool) -> Line {
        let mut l = Line::blank(width, Pen::default());
        let mut i = 0;
        while i < width {
            l.cells[i] = cell_of(kinds[i]);
            i += 1;
        }
        l.wrapped = wrapped;
        l
    }

    /// number of trailing default cells among kinds[0..width]
    fn trailing(kinds: &[u8; 3], width: usize) -> usize {
        let mut n = 0;
        while n < width && kinds[width - 1 - n] == 0 {
            n += 1;
        }
        n
    }

    fn trailers_case(width: usize) {
        let kinds = any_kinds();
        let w: bool = kani::any();
        let mut l = mk_line(width, &kinds, w);
        let t = trailing(&kinds, width);
        assert!(l.trailers() == t);
        assert!(l.is_blank() == (t == width));
        l.trim();
        assert!(l.cells.len() == width - t && l.wrapped == w);
        let mut i = 0;
        while i < width - t {
            assert!(kind_of(&l.cells[i]) == kinds[i]);
            i += 1;
        }
    }

    #[kani::proof]
    #[kani::unwind(6)]
    fn k_line_trailers() {
        let which: u8 = kani::any();
        match which % 4 {
            0 => trailers_case(0),
            1 => trailers_case(1),
            2 => trailers_case(2),
            _ => trailers_case(3),
        }
        kani::cover!(which % 4 == 3);
    }

    fn expand_case(width: usize, len: usize) {
        let kinds = any_kinds();
        let w: bool = kani::any();
        let mut l = mk_line(width, &kinds, w);
        let pen = if kani::any() { italic() } else { Pen::default() };
        l.expand(len, &pen);
        assert!(l.cells.len() == len && l.wrapped == w);
        let mut i = 0;
        while i < len {
            if i < width {
                assert!(kind_of(&l.cells[i]) == kinds[i]);
            } else {
                assert!(l.cells[i] == Cell::blank(pen));
            }
            i += 1;
        }
    }

    #[kani::proof]
    #[kani::unwind(6)]
    fn k_line_expand() {
        let which: u8 = kani::any();
        match which % 4 {
            0 => expand_case(0, 1),
            1 => expand_case(1, 1),
            2 => expand_case(1, 3),
            _ => expand_case(2, 3),
        }
        kani::cover!(which % 4 == 3);
    }

    /// [C10] contracting a row to `len` cells: row ++ rest is the old row, except that trailing
    /// default cells of a row that ends its logical line may go; nothing else is lost, altered,
    /// reordered or invented; the wrap marks chain row -> rest -> (what the row chained to)
    fn contract_case(width: usize, len: usize) {
        let kinds = any_kinds();
        let w: bool = kani::any();
        let mut l = mk_line(width, &kinds, w);
        let rest = l.contract(len);
        let keep = if width < len { width } else { len };
        assert!(l.cells.len() == keep);
        let mut i = 0;
        while i < keep {
            assert!(kind_of(&l.cells[i]) == kinds[i]);
            i += 1;
        }
        match rest {
            Some(r) => {
                let rl = r.cells.len();
                assert!(rl > 0 && keep + rl <= width);
                assert!(r.wrapped == w && l.wrapped);
                let mut j = 0;
                while j < rl {
                    assert!(kind_of(&r.cells[j]) == kinds[keep + j]);
                    j += 1;
                }
                // what was dropped: default cells only, and only when the logical line ends here
                let mut d = keep + rl;
                while d < width {
                    assert!(!w && kinds[d] == 0);
                    d += 1;
                }
            }
            None => {
                assert!(l.wrapped == w);
                let mut d = keep;
                while d < width {
                    assert!(!w && kinds[d] == 0);
                    d += 1;
                }
            }
        }
    }

    #[kani::proof]
    #[kani::unwind(6)]
    fn k_line_contract_1() {
        let which: u8 = kani::any();
        match which % 3 {
            0 => contract_case(1, 1),
            1 => contract_case(2, 1),
            _ => contract_case(3, 1),
        }
        kani::cover!(which % 3 == 2);
    }

    #[kani::proof]
    #[kani::unwind(6)]
    fn k_line_contract_2() {
        let which: u8 = kani::any();
        match which % 3 {
            0 => contract_case(1, 2),
            1 => contract_case(2, 2),
            _ => contract_case(3, 2),
        }
        kani::cover!(which % 3 == 2);
    }

    /// [C10] extending a row of width `a_w` <= `len` with the next row (width `b_w`):
    ///  - a row that ends its logical line is only padded with default blanks, the next row is
    ///    handed back untouched;
    ///  - otherwise row ++ rest is a ++ b cell for cell, except that trailing default cells of b
    ///    may go when b ends the logical line (then default padding may follow them);
    ///  - `done` rows have exactly `len` cells; a row that is not done keeps its wrap mark
    fn extend_case(a_w: usize, b_w: usize, len: usize) {
        let ka = any_kinds();
        let kb = any_kinds();
        let wa: bool = kani::any();
        let wb: bool = kani::any();
        let mut a = mk_line(a_w, &ka, wa);
        let b = mk_line(b_w, &kb, wb);
        let (done, rest) = a.extend(b, len);
        if done {
            assert!(a.cells.len() == len);
        } else {
            assert!(rest.is_none() && a.wrapped && a.cells.len() <= len);
        }
        let mut i = 0;
        while i < a_w {
            assert!(kind_of(&a.cells[i]) == ka[i]);
            i += 1;
        }
        if !wa || a_w == len {
            // nothing is taken from b
            assert!(done);
            let mut p = a_w;
            while p < len {
                assert!(a.cells[p].is_default());
                p += 1;
            }
            assert!(a.wrapped == wa);
            match rest {
                Some(r) => {
                    assert!(r.cells.len() == b_w && r.wrapped == wb);
                    let mut j = 0;
                    while j < b_w {
                        assert!(kind_of(&r.cells[j]) == kb[j]);
                        j += 1;
                    }
                }
                None => assert!(false),
            }
        } else {
            let tb = if wb { 0 } else { trailing(&kb, b_w) };
            let live = b_w - tb; // cells of b that must survive
            let took = a.cells.len() - a_w;
            match rest {
                Some(r) => {
                    // the row is full and still chained to the rest, which chains on as b did
                    assert!(a.wrapped && r.wrapped == wb && r.cells.len() > 0);
                    assert!(took == len - a_w);
                    let mut j = 0;
                    while j < took {
                        assert!(kind_of(&a.cells[a_w + j]) == kb[j]);
                        j += 1;
                    }
                    let rl = r.cells.len();
                    assert!(took + rl >= live && took + rl <= b_w);
                    let mut q = 0;
                    while q < rl {
                        assert!(kind_of(&r.cells[q]) == kb[took + q]);
                        q += 1;
                    }
                }
                None => {
                    if wb {
                        // all of b moved up, the logical line goes on
                        assert!(took == b_w && a.wrapped);
                        let mut j = 0;
                        while j < b_w {
                            assert!(kind_of(&a.cells[a_w + j]) == kb[j]);
                            j += 1;
                        }
                    } else {
                        // b ended the logical line: its live cells moved up, default padding after
                        assert!(done && !a.wrapped && live <= len - a_w);
                        let mut j = 0;
                        while j < live {
                            assert!(kind_of(&a.cells[a_w + j]) == kb[j]);
                            j += 1;
                        }
                        let mut p = a_w + live;
                        while p < len {
                            assert!(a.cells[p].is_default());
                            p += 1;
                        }
                    }
                }
            }
        }
    }



    fn char_of(kind: u8) -> char {
        if kind == 1 { 'a' } else if kind == 3 { '\u{a0}' } else if kind == 4 { '\u{301}' } else { ' ' }
    }

    /// `Line::text()` is the cells' characters, in order, nothing added or dropped
    /// (contents enumerated concretely inside the harness: String code with symbolic contents does not finish)
    fn text_case(width: usize) {
        let mut n = 0u32;
        let mut k0 = 0u8;
        while k0 < 5 {
            let mut k1 = 0u8;
            while k1 < (if width > 1 { 5 } else { 1 }) {
                let mut k2 = 0u8;
                while k2 < (if width > 2 { 5 } else { 1 }) {
                    let kinds = [k0, k1, k2];
                    let l = mk_line(width, &kinds, k0 == 1);
                    let s = l.text();
                    let mut it = s.chars();
                    assert!(it.next() == Some(char_of(k0)));
                    if width > 1 {
                        assert!(it.next() == Some(char_of(k1)));
                    }
                    if width > 2 {
                        assert!(it.next() == Some(char_of(k2)));
                    }
                    assert!(it.next().is_none());
                    n += 1;
                    k2 += 1;
                }
                k1 += 1;
            }
            k0 += 1;
        }
        kani::cover!(n >= 5);
    }

    #[kani::proof]
    #[kani::unwind(7)]
    fn k_line_text_1() {
        text_case(1);
    }

    #[kani::proof]
    #[kani::unwind(7)]
    fn k_line_text_2() {
        text_case(2);
    }

    #[kani::proof]
    #[kani::unwind(7)]
    fn k_line_text_3() {
        // width 3 over the full five-cell alphabet (125 rows) does not finish in 30 min;
        // three kinds (27 rows): default blank, 'a', the zero-width mark
        let alpha = [0u8, 1, 4];
        let mut n = 0u32;
        let mut i0 = 0;
        while i0 < 3 {
            let mut i1 = 0;
            while i1 < 3 {
                let mut i2 = 0;
                while i2 < 3 {
                    let kinds = [alpha[i0], alpha[i1], alpha[i2]];
                    let l = mk_line(3, &kinds, i0 == 1);
                    let s = l.text();
                    let mut it = s.chars();
                    assert!(it.next() == Some(char_of(kinds[0])));
                    assert!(it.next() == Some(char_of(kinds[1])));
                    assert!(it.next() == Some(char_of(kinds[2])));
                    assert!(it.next().is_none());
                    n += 1;
                    i2 += 1;
                }
                i1 += 1;
            }
            i0 += 1;
        }
        kani::cover!(n >= 27);
    }
}
