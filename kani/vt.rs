// append-to: src/vt.rs
// harness: k_vt_resize_a props=C02,C13,C15 fns=Vt::resize kind=bounded tier=thorough timeout=1800 obligation="Vt::resize(= Terminal::resize, then changes(), then gc())" bound="2x2 terminal with one scrollback line, limit 0, resize to 3x1"
// harness: k_vt_resize_b props=C02,C13,C15 fns=Vt::resize kind=bounded tier=thorough timeout=900 obligation=Vt::resize bound="2x2 terminal with one scrollback line, limit 0, resize to 1x3"
#[cfg(kani)]
mod verif_kani_vt {
    use super::*;

    fn resize_case(cols: usize, rows: usize) {
        let mut v = Vt::builder().size(2, 2).scrollback_limit(0).build();
        // one line of scrollback that a trim must remove
        v.terminal.buffer.lines.insert(0, Line::blank(2, crate::pen::Pen::default()));
        v.terminal.buffer.trim_needed = false;
        let dirty_before = v.terminal.changes();
        assert!(dirty_before.len() == 2);
        let (lines, n_scrollback) = {
            let ch = v.resize(cols, rows);
            let l = ch.lines.clone();
            let n = ch.scrollback.count();
            (l, n)
        };
        // [C02] geometry as requested, changed lines strictly increasing and below rows
        assert!(v.size() == (cols, rows));
        assert!(v.view().len() == rows);
        let mut j = 0;
        while j < lines.len() {
            assert!(lines[j] < rows);
            if j > 0 {
                assert!(lines[j - 1] < lines[j]);
            }
            j += 1;
        }
        // [C15] a resize reports every row
        assert!(lines.len() == rows);
        // [C13] limit 0: exactly `rows` lines remain once the Changes value is gone
        assert!(v.lines().len() == rows);
        assert!(v.cursor().row < rows && v.cursor().col <= cols);
        kani::cover!(n_scrollback > 0);
    }

    #[kani::proof]
    #[kani::unwind(8)]
    fn k_vt_resize_a() { resize_case(3, 1) }
    #[kani::proof]
    #[kani::unwind(8)]
    fn k_vt_resize_b() { resize_case(1, 3) }
}
