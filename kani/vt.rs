// append-to: src/vt.rs
// harness: k_feed_str_is_fold props=C12,C13,C15,C02 kind=bounded tier=thorough timeout=2400 obligation=Vt::feed_str(fold of feed, then changes() and gc()) bound="2x1 terminal, limit 0, one ASCII character from a class-covering alphabet (ESC [ digit ; final printable LF CR)"
// harness: k_vt_resize_a props=C02,C13,C15 kind=bounded tier=thorough timeout=1800 obligation=Vt::resize(= Terminal::resize, then changes(), then gc()) bound="2x2 terminal with one scrollback line, limit 0, resize to 3x1"
// harness: k_vt_resize_b props=C02,C13,C15 kind=bounded tier=thorough timeout=900 obligation=Vt::resize bound="2x2 terminal with one scrollback line, limit 0, resize to 1x3"
#[cfg(kani)]
mod verif_kani_vt {
    use super::*;

    fn pick(k: u8) -> u8 {
        // class-covering alphabet: ESC [ digit ; final printable LF CR
        match k % 8 { 0 => 0x1b, 1 => b'[', 2 => b'2', 3 => b';', 4 => b'H', 5 => b'x', 6 => b'\n', _ => b'\r' }
    }

    #[kani::proof]
    #[kani::unwind(6)]
    fn k_feed_str_is_fold() {
        let b = [pick(kani::any())];
        let s = core::str::from_utf8(&b).unwrap();
        let mut v1 = Vt::builder().size(2, 1).scrollback_limit(0).build();
        let mut v2 = Vt::builder().size(2, 1).scrollback_limit(0).build();
        let lines1 = {
            let ch = v1.feed_str(s);
            let l = ch.lines.clone();
            drop(ch);
            l
        };
        v2.feed(b[0] as char);
        let lines2 = v2.terminal.changes();
        drop(v2.terminal.gc());
        // [C12] same screen, cursor and parser state whichever way the input was fed
        assert!(v1.cursor() == v2.cursor());
        assert!(v1.parser.state == v2.parser.state);
        assert!(v1.view() == v2.view());
        assert!(lines1 == lines2);
        // [C13] limit 0: exactly `rows` lines after the call
        assert!(v1.lines().len() == 1);
        kani::cover!(v1.cursor().col == 1);
    }

    fn resize_case(cols: usize, rows: usize) {
        let mut v = Vt::builder().size(2, 2).scrollback_limit(0).build();
        // one line of scrollback that a trim must remove
        v.terminal.buffer.lines.insert(0, Line::blank(2, crate::pen::Pen::default()));
        v.terminal.buffer.trim_needed = false;
        let dirty_before = v.terminal.changes();
        assert!(dirty_before.len() == 2);
        let (lines, n_scrollback) = {
            let ch = v.resize(cols, rows);
            let l = ch.lines.clone();
            let n = ch.scrollback.count();
            (l, n)
        };
        // [C02] geometry as requested, changed lines strictly increasing and below rows
        assert!(v.size() == (cols, rows));
        assert!(v.view().len() == rows);
        let mut j = 0;
        while j < lines.len() {
            assert!(lines[j] < rows);
            if j > 0 {
                assert!(lines[j - 1] < lines[j]);
            }
            j += 1;
        }
        // [C15] a resize reports every row
        assert!(lines.len() == rows);
        // [C13] limit 0: exactly `rows` lines remain once the Changes value is gone
        assert!(v.lines().len() == rows);
        assert!(v.cursor().row < rows && v.cursor().col <= cols);
        kani::cover!(n_scrollback > 0);
    }

    #[kani::proof]
    #[kani::unwind(8)]
    fn k_vt_resize_a() { resize_case(3, 1) }
    #[kani::proof]
    #[kani::unwind(8)]
    fn k_vt_resize_b() { resize_case(1, 3) }
}
