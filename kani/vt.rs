// append-to: src/vt.rs
// harness: k_feed_str_is_fold props=C12,C13,C15,C02 kind=bounded tier=thorough timeout=2400 obligation=Vt::feed_str(fold of feed, then changes() and gc()) bound="2x2 terminal, limit 0, two ASCII characters from a class-covering alphabet"
#[cfg(kani)]
mod verif_kani_vt {
    use super::*;

    fn pick(k: u8) -> u8 {
        // class-covering alphabet: ESC [ digit ; final printable LF CR
        match k % 8 { 0 => 0x1b, 1 => b'[', 2 => b'2', 3 => b';', 4 => b'H', 5 => b'x', 6 => b'\n', _ => b'\r' }
    }

    #[kani::proof]
    #[kani::unwind(6)]
    fn k_feed_str_is_fold() {
        let b = [pick(kani::any()), pick(kani::any())];
        let s = core::str::from_utf8(&b).unwrap();
        let mut v1 = Vt::builder().size(2, 2).scrollback_limit(0).build();
        let mut v2 = Vt::builder().size(2, 2).scrollback_limit(0).build();
        let lines1 = {
            let ch = v1.feed_str(s);
            let l = ch.lines.clone();
            drop(ch);
            l
        };
        v2.feed(b[0] as char);
        v2.feed(b[1] as char);
        let lines2 = v2.terminal.changes();
        drop(v2.terminal.gc());
        // [C12] same screen, cursor and parser state whichever way the input was fed
        assert!(v1.cursor() == v2.cursor());
        assert!(v1.parser.state == v2.parser.state);
        assert!(v1.view() == v2.view());
        assert!(lines1 == lines2);
        // [C13] limit 0: exactly `rows` lines after the call
        assert!(v1.lines().len() == 2);
        kani::cover!(v1.cursor().row == 1);
    }
}
