// append-to: src/buffer.rs
// harness: k_buffer_extend props=C01,C02,C06 fns=Buffer::extend kind=bounded tier=quick timeout=600 obligation=Buffer::extend/E1-E4 bound="four concrete geometries (cols, rows, n, new cols) in {(1,1,0,1),(2,1,1,2),(1,2,2,2),(2,2,3,1)}, symbolic pen / wrap mark"
// harness: k_gc_drop_a props=C13,C14 fns=Buffer::gc,Buffer::trim_scrollback kind=bounded tier=thorough timeout=900 obligation="Buffer::gc+trim_scrollback(drain exactness, also when the iterator is dropped unconsumed)" bound="limit 0, 2 rows, 3 scrollback lines, width 1; symbolic trim flag and consume/drop"
// harness: k_gc_drop_b props=C13,C14 fns=Buffer::gc,Buffer::trim_scrollback kind=bounded tier=thorough timeout=900 obligation=Buffer::gc+trim_scrollback bound="limit 1, 1 row, 3 scrollback lines"
// harness: k_gc_drop_c props=C13,C14 fns=Buffer::gc,Buffer::trim_scrollback kind=bounded tier=thorough timeout=900 obligation=Buffer::gc+trim_scrollback bound="limit 2, 1 row, 3 scrollback lines"
// harness: k_gc_drop_d props=C13,C14 fns=Buffer::gc,Buffer::trim_scrollback kind=bounded tier=quick timeout=600 obligation=Buffer::gc+trim_scrollback bound="limit 11, 1 row, 3 scrollback lines (no trim)"
// harness: k_gc_drop_e props=C01,C13,C14 fns=Buffer::gc,Buffer::trim_scrollback kind=bounded tier=quick timeout=600 obligation="Buffer::gc+trim_scrollback(soft vs hard limit: nothing trimmed up to the hard limit)" bound="soft 1 / hard 3 set directly, 1 row, 2 scrollback lines"
// harness: k_gc_drop_f props=C01,C13,C14 fns=Buffer::gc,Buffer::trim_scrollback kind=bounded tier=thorough timeout=1800 obligation="Buffer::gc+trim_scrollback(soft vs hard limit: above the hard limit trimmed down to the soft limit)" bound="soft 1 / hard 3 set directly, 1 row, 4 scrollback lines"
// harness: k_reflow_1x2_to_1 props=C01,C02,C10 fns=::reflow,Reflow<I>,Line::expand,Line::trailers kind=bounded tier=quick timeout=600 obligation="reflow/E1,E2,E3+logical text preserved" bound="1 line of width 2 -> width 1, every content over {blank, a} and every wrap-mark assignment (enumerated concretely)"
// harness: k_reflow_2x1_to_2 props=C01,C02,C10 fns=::reflow,Reflow<I>,Line::expand,Line::trailers kind=bounded tier=quick timeout=600 obligation="reflow/E1,E2,E3+logical text preserved" bound="2 lines of width 1 -> width 2, every content over {blank, a} and every wrap-mark assignment (enumerated concretely)"
// harness: k_reflow_2x2_to_1 props=C01,C02,C10 fns=::reflow,Reflow<I>,Line::expand,Line::trailers kind=bounded tier=thorough timeout=1800 obligation="reflow/E1,E2+logical text preserved" bound="2 lines of width 2 -> width 1, every content over {blank, a} and every wrap-mark assignment (enumerated concretely)"
// harness: k_reflow_2x2_to_3 props=C01,C02,C10 fns=::reflow,Reflow<I>,Line::expand,Line::trailers kind=bounded tier=thorough timeout=1800 obligation="reflow/E1,E2+logical text preserved" bound="2 lines of width 2 -> width 3, every content over {blank, a} and every wrap-mark assignment (enumerated concretely)"
// harness: k_reflow_3x1_to_2 props=C01,C02,C10 fns=::reflow,Reflow<I>,Line::expand,Line::trailers kind=bounded tier=thorough timeout=1800 obligation="reflow/E1,E2+logical text preserved" bound="3 lines of width 1 -> width 2, every content over {blank, a} and every wrap-mark assignment (enumerated concretely)"
// harness: k_reflow_collect props=C01,C02,C10 fns=::reflow,Reflow<I>,Line::expand,Line::trailers kind=bounded tier=quick timeout=600 obligation="reflow(= Reflow.collect() + width assertion)" bound="one blank row of width 2 -> width 1"
#[cfg(kani)]
mod verif_kani_buffer {
    use super::*;

    fn any_cell() -> Cell {
        if kani::any() { Cell::blank(Pen::default()) } else { Cell::new('a', Pen::default()) }
    }

    fn any_line(width: usize) -> Line {
        let mut l = Line::blank(width, Pen::default());
        let mut i = 0;
        while i < width {
            l.cells[i] = any_cell();
            i += 1;
        }
        l.wrapped = kani::any();
        l
    }

    fn extend_case(cols: usize, rows: usize, n: usize, newcols: usize) {
        let mut b = Buffer::new(cols, rows, None, None);
        let before = b.lines.len();
        let first_wrapped: bool = kani::any();
        b.lines[0].wrapped = first_wrapped;
        let mut pen = Pen::default();
        if kani::any() { pen.set_italic(); }
        b.extend(n, newcols, &pen);
        assert!(b.lines.len() == before + n);
        assert!(b.lines[0].wrapped == first_wrapped && b.lines[0].cells.len() == cols);
        let mut i = before;
        while i < b.lines.len() {
            assert!(b.lines[i].cells.len() == newcols && !b.lines[i].wrapped);
            let mut c = 0;
            while c < newcols {
                assert!(b.lines[i].cells[c] == Cell::blank(pen));
                c += 1;
            }
            i += 1;
        }
        assert!(b.cols == cols && b.rows == rows && !b.trim_needed);
    }

    #[kani::proof]
    #[kani::unwind(8)]
    fn k_buffer_extend() {
        let which: u8 = kani::any();
        match which % 4 {
            0 => extend_case(1, 1, 0, 1),
            1 => extend_case(2, 1, 1, 2),
            2 => extend_case(1, 2, 2, 2),
            _ => extend_case(2, 2, 3, 1),
        }
        kani::cover!(which % 4 == 3);
    }

    fn tag(i: usize) -> char {
        if i == 0 { 'x' } else if i == 1 { 'y' } else if i == 2 { 'z' } else { ' ' }
    }

    fn gc_case(limit: usize, rows: usize, extra: usize) {
        gc_case2(limit, limit + limit / 10, rows, extra)
    }

    /// `extra` scrollback lines tagged x, y, z followed by `rows` blank view lines (width 1);
    /// identity of a line is its tag, so no Vec<Line> has to be cloned or compared
    /// the limits are set directly so that soft < hard is reachable with a handful of lines
    /// (through the constructor hard - soft = soft / 10 needs >= 10 lines of scrollback)
    fn gc_case2(limit: usize, hard: usize, rows: usize, extra: usize) {
        let mut b = Buffer::new(1, rows, Some(limit), None);
        b.scrollback_limit = Some(ScrollbackLimit { soft: limit, hard });
        let mut i = 0;
        while i < extra {
            let mut l = Line::blank(1, Pen::default());
            l.cells[0] = Cell::new(tag(i), Pen::default());
            b.lines.insert(i, l);
            i += 1;
        }
        b.trim_needed = kani::any();
        let trim = b.trim_needed;
        let len_before = b.lines.len();
        let consume: bool = kani::any();
        let mut n_drained = 0;
        let mut drained_ok = true;
        {
            let it = b.gc();
            if let Some(it) = it {
                if consume {
                    for l in it {
                        if l.cells[0].char() != tag(n_drained) {
                            drained_ok = false;
                        }
                        n_drained += 1;
                    }
                }
            }
        }
        let sb_before = len_before - rows;
        let excess = if trim && sb_before > hard { sb_before - limit } else { 0 };
        // [C13] trimmed down to the soft limit, also when the iterator was dropped unconsumed
        assert!(b.lines.len() == len_before - excess);
        // [C14] the oldest lines were removed, the rest is untouched and in order
        let mut j = 0;
        while j < b.lines.len() {
            let idx = j + excess;
            assert!(b.lines[j].cells[0].char() == (if idx < extra { tag(idx) } else { ' ' }));
            j += 1;
        }
        if consume {
            assert!(n_drained == excess && drained_ok);
        }
        assert!(!b.trim_needed);
    }

    #[kani::proof]
    #[kani::unwind(8)]
    fn k_gc_drop_a() { gc_case(0, 2, 3); kani::cover!(true); }
    #[kani::proof]
    #[kani::unwind(8)]
    fn k_gc_drop_b() { gc_case(1, 1, 3); kani::cover!(true); }
    #[kani::proof]
    #[kani::unwind(8)]
    fn k_gc_drop_c() { gc_case(2, 1, 3); kani::cover!(true); }
    #[kani::proof]
    #[kani::unwind(8)]
    fn k_gc_drop_d() { gc_case(11, 1, 3); kani::cover!(true); }
    #[kani::proof]
    #[kani::unwind(8)]
    fn k_gc_drop_e() { gc_case2(1, 3, 1, 2); kani::cover!(true); }
    #[kani::proof]
    #[kani::unwind(8)]
    fn k_gc_drop_f() { gc_case2(1, 3, 1, 4); kani::cover!(true); }

    fn lines_of(n: usize, w: usize) -> Vec<Line> {
        let mut lines: Vec<Line> = Vec::new();
        let mut i = 0;
        while i < n {
            lines.push(any_line(w));
            i += 1;
        }
        // Buffer::wf: the last line is never wrapped
        let last = lines.len() - 1;
        lines[last].wrapped = false;
        lines
    }

    /// logical text of a sequence of rows: rows joined while wrapped; trailing blanks of each
    /// logical line dropped; written into a fixed buffer with '\n' separators (no allocation:
    /// Vec<char> pushes and comparisons dominated the CBMC cost)
    struct Text {
        buf: [char; 24],
        len: usize,
        pending: usize, // blanks seen since the last non-blank of the current logical line
    }

    impl Text {
        fn new() -> Text {
            Text { buf: ['\0'; 24], len: 0, pending: 0 }
        }

        fn push_row(&mut self, line: &Line) {
            let mut c = 0;
            while c < line.cells.len() {
                let ch = line.cells[c].char();
                if ch == ' ' {
                    self.pending += 1;
                } else {
                    while self.pending > 0 {
                        self.buf[self.len] = ' ';
                        self.len += 1;
                        self.pending -= 1;
                    }
                    self.buf[self.len] = ch;
                    self.len += 1;
                }
                c += 1;
            }
            if !line.wrapped {
                self.pending = 0;
                self.buf[self.len] = '\n';
                self.len += 1;
            }
        }
    }

    fn logical(lines: &[Line]) -> Text {
        let mut t = Text::new();
        let mut i = 0;
        while i < lines.len() {
            t.push_row(&lines[i]);
            i += 1;
        }
        t
    }

    fn same_text(a: &Text, b: &Text) -> bool {
        if a.len != b.len {
            return false;
        }
        let mut i = 0;
        while i < a.len {
            if a.buf[i] != b.buf[i] {
                return false;
            }
            i += 1;
        }
        true
    }

    /// one concrete geometry, symbolic cells ({blank, 'a'}) and wrap marks: every output line has
    /// the new width, the last one is not wrapped, and the logical text is unchanged
    /// Drives the real `Reflow` iterator by hand over an array of N rows (no Vec of rows, no
    /// `collect()`), for EVERY content over {blank, 'a'} and every wrap-mark assignment - enumerated
    /// as concrete cases inside the harness: with symbolic cells the `truncate` / `split_off` /
    /// `extend` calls get symbolic lengths and CBMC does not finish even for one row.
    fn reflow_case<const N: usize>(w: usize, cols: usize) {
        let bits = N * w + (N - 1);
        let mut code: u32 = 0;
        while code < (1u32 << bits) {
            let mut lines: [Line; N] = core::array::from_fn(|_| Line::blank(w, Pen::default()));
            let mut b = 0;
            let mut i = 0;
            while i < N {
                let mut c = 0;
                while c < w {
                    if (code >> b) & 1 == 1 {
                        lines[i].cells[c] = Cell::new('a', Pen::default());
                    }
                    b += 1;
                    c += 1;
                }
                // Buffer::wf: the last line is never wrapped
                if i + 1 < N {
                    lines[i].wrapped = (code >> b) & 1 == 1;
                    b += 1;
                }
                i += 1;
            }
            let before = logical(&lines);
            let mut r = Reflow { iter: lines.into_iter(), cols, rest: None };
            let mut after = Text::new();
            let mut count = 0;
            let mut last_wrapped = true;
            while let Some(l) = r.next() {
                // reflow/E1: every row has the new width
                assert!(l.cells.len() == cols);
                after.push_row(&l);
                last_wrapped = l.wrapped;
                count += 1;
                assert!(count <= 8);
            }
            // reflow/E2: at least one row, the last one not wrapped
            assert!(count >= 1 && !last_wrapped);
            // reflow/E4 [C10]: logical text unchanged up to trailing blanks; E3: same number of logical lines
            assert!(same_text(&before, &after));
            code += 1;
        }
        kani::cover!(code == (1u32 << bits));
    }

    #[kani::proof]
    #[kani::unwind(10)]
    fn k_reflow_1x2_to_1() { reflow_case::<1>(2, 1) }
    #[kani::proof]
    #[kani::unwind(10)]
    fn k_reflow_2x1_to_2() { reflow_case::<2>(1, 2) }
    #[kani::proof]
    #[kani::unwind(34)]
    fn k_reflow_2x2_to_1() { reflow_case::<2>(2, 1) }
    #[kani::proof]
    #[kani::unwind(34)]
    fn k_reflow_2x2_to_3() { reflow_case::<2>(2, 3) }
    #[kani::proof]
    #[kani::unwind(34)]
    fn k_reflow_3x1_to_2() { reflow_case::<3>(1, 2) }

    /// `reflow()` = collect the iterator + width assertion: one concrete run through the real function
    #[kani::proof]
    #[kani::unwind(10)]
    fn k_reflow_collect() {
        let mut a = Line::blank(2, Pen::default());
        a.cells[1] = Cell::new('a', Pen::default());
        let out = reflow([a].into_iter(), 1);
        assert!(out.len() == 2 && out[0].cells.len() == 1 && out[1].cells.len() == 1 && out[0].wrapped && !out[1].wrapped);
        assert!(out[1].cells[0].char() == 'a');
        kani::cover!(true);
    }


}
