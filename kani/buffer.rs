// append-to: src/buffer.rs
// harness: k_buffer_extend props=C01,C02,C06 kind=bounded tier=quick timeout=600 obligation=Buffer::extend/E1-E4 bound="<= 2 existing lines, n <= 3, cols <= 2"
// harness: k_gc_drop props=C13,C14 kind=bounded tier=quick timeout=900 obligation=Buffer::gc+trim_scrollback(drain exactness, also when the iterator is dropped unconsumed) bound="<= 5 lines of width 1, rows <= 2, limit in {0,1,2,11}"
// harness: k_reflow_shape props=C01,C02,C10 kind=bounded tier=quick timeout=1200 obligation=reflow/E1,E2 bound="<= 3 lines, old width <= 2, new width <= 3"
// harness: k_resize_cursor props=C10,C16 kind=bounded tier=thorough timeout=2400 obligation=Buffer::resize(cursor stays on its character; text above the cursor's logical line unchanged) bound="<= 3 lines of width 2 (no scrollback or 1 line), rows <= 2, new size in 1..=3 x 1..=3"
// harness: k_reflow_text props=C10,C09 kind=bounded tier=thorough timeout=1800 obligation=reflow(logical text preserved) bound="<= 3 lines, old width 2, new width in 1..=3, cells from {blank, 'a', 'b'}"
#[cfg(kani)]
mod verif_kani_buffer {
    use super::*;

    fn any_cell() -> Cell {
        let k: u8 = kani::any();
        if k == 0 { Cell::blank(Pen::default()) } else if k == 1 { Cell::new('a', Pen::default()) } else { Cell::new('b', Pen::default()) }
    }

    fn any_line(width: usize) -> Line {
        let mut l = Line::blank(width, Pen::default());
        let mut i = 0;
        while i < width {
            l.cells[i] = any_cell();
            i += 1;
        }
        l.wrapped = kani::any();
        l
    }

    #[kani::proof]
    #[kani::unwind(5)]
    fn k_buffer_extend() {
        let cols: usize = kani::any();
        kani::assume(cols >= 1 && cols <= 2);
        let rows: usize = kani::any();
        kani::assume(rows >= 1 && rows <= 2);
        let mut b = Buffer::new(cols, rows, None, None);
        let before = b.lines.len();
        let first_wrapped: bool = kani::any();
        b.lines[0].wrapped = first_wrapped;
        let n: usize = kani::any();
        kani::assume(n <= 3);
        let newcols: usize = kani::any();
        kani::assume(newcols >= 1 && newcols <= 2);
        let mut pen = Pen::default();
        if kani::any() { pen.set_italic(); }
        b.extend(n, newcols, &pen);
        assert!(b.lines.len() == before + n);
        assert!(b.lines[0].wrapped == first_wrapped && b.lines[0].cells.len() == cols);
        let mut i = before;
        while i < b.lines.len() {
            assert!(b.lines[i].cells.len() == newcols && !b.lines[i].wrapped);
            let mut c = 0;
            while c < newcols {
                assert!(b.lines[i].cells[c] == Cell::blank(pen));
                c += 1;
            }
            i += 1;
        }
        assert!(b.cols == cols && b.rows == rows && !b.trim_needed);
        kani::cover!(n == 3);
    }

    #[kani::proof]
    #[kani::unwind(8)]
    fn k_gc_drop() {
        let which: u8 = kani::any();
        let limit = if which == 0 { 0 } else if which == 1 { 1 } else if which == 2 { 2 } else { 11 };
        let rows: usize = kani::any();
        kani::assume(rows >= 1 && rows <= 2);
        let mut b = Buffer::new(1, rows, Some(limit), None);
        // scrollback: `extra` tagged lines on top
        let extra: usize = kani::any();
        kani::assume(extra <= 3);
        let mut i = 0;
        while i < extra {
            let mut l = Line::blank(1, Pen::default());
            l.cells[0] = Cell::new(if i == 0 { 'x' } else if i == 1 { 'y' } else { 'z' }, Pen::default());
            b.lines.insert(i, l);
            i += 1;
        }
        b.trim_needed = kani::any();
        let trim = b.trim_needed;
        let before: Vec<Line> = b.lines.clone();
        let hard = limit + limit / 10;
        let consume: bool = kani::any();
        let mut drained: Vec<Line> = Vec::new();
        {
            let it = b.gc();
            if let Some(it) = it {
                if consume {
                    for l in it {
                        drained.push(l);
                    }
                }
            }
        }
        let sb_before = before.len() - rows;
        if trim && sb_before > hard {
            // [C13] trimmed down to the soft limit, also when the iterator was dropped unconsumed
            let excess = sb_before - limit;
            assert!(b.lines.len() == before.len() - excess);
            // [C14] the oldest lines were removed, the rest is untouched and in order
            let mut j = 0;
            while j < b.lines.len() {
                assert!(b.lines[j] == before[j + excess]);
                j += 1;
            }
            if consume {
                assert!(drained.len() == excess);
                let mut j = 0;
                while j < excess {
                    assert!(drained[j] == before[j]);
                    j += 1;
                }
            }
        } else {
            assert!(b.lines.len() == before.len());
            assert!(drained.is_empty());
        }
        assert!(!b.trim_needed);
        kani::cover!(trim && sb_before > hard && consume);
        kani::cover!(trim && sb_before > hard && !consume);
    }

    #[kani::proof]
    #[kani::unwind(8)]
    fn k_reflow_shape() {
        let n: usize = kani::any();
        kani::assume(n >= 1 && n <= 3);
        let w: usize = kani::any();
        kani::assume(w >= 1 && w <= 2);
        let mut lines: Vec<Line> = Vec::new();
        let mut i = 0;
        while i < n {
            lines.push(any_line(w));
            i += 1;
        }
        // Buffer::wf: the last line is never wrapped
        let last = lines.len() - 1;
        lines[last].wrapped = false;
        let cols: usize = kani::any();
        kani::assume(cols >= 1 && cols <= 3 && cols != w);
        let out = reflow(lines.into_iter(), cols);
        let mut j = 0;
        while j < out.len() {
            assert!(out[j].cells.len() == cols);
            j += 1;
        }
        assert!(out.len() >= 1);
        assert!(!out[out.len() - 1].wrapped);
        kani::cover!(out.len() == 4);
    }

    /// logical text of a sequence of rows: rows joined while wrapped; trailing blanks of each
    /// logical line dropped; returned as a flat vector with '\n' separators
    fn logical(lines: &[Line]) -> Vec<char> {
        let mut out: Vec<char> = Vec::new();
        let mut cur: Vec<char> = Vec::new();
        let mut i = 0;
        while i < lines.len() {
            let mut c = 0;
            while c < lines[i].cells.len() {
                cur.push(lines[i].cells[c].char());
                c += 1;
            }
            if !lines[i].wrapped {
                while !cur.is_empty() && cur[cur.len() - 1] == ' ' {
                    cur.pop();
                }
                let mut k = 0;
                while k < cur.len() {
                    out.push(cur[k]);
                    k += 1;
                }
                out.push('\n');
                cur.clear();
            }
            i += 1;
        }
        out
    }

    #[kani::proof]
    #[kani::unwind(10)]
    fn k_reflow_text() {
        let n: usize = kani::any();
        kani::assume(n >= 1 && n <= 3);
        let mut lines: Vec<Line> = Vec::new();
        let mut i = 0;
        while i < n {
            lines.push(any_line(2));
            i += 1;
        }
        let last = lines.len() - 1;
        lines[last].wrapped = false;
        let before = logical(&lines);
        let cols: usize = kani::any();
        kani::assume(cols >= 1 && cols <= 3 && cols != 2);
        let out = reflow(lines.into_iter(), cols);
        let after = logical(&out);
        assert!(before == after);
        kani::cover!(out.len() >= 3);
    }

    #[kani::proof]
    #[kani::unwind(10)]
    fn k_resize_cursor() {
        // a small primary buffer with distinct-ish content, cursor on a character of the text
        let rows: usize = kani::any();
        kani::assume(rows >= 1 && rows <= 2);
        let total: usize = kani::any();
        kani::assume(total >= rows && total <= 3);
        let mut b = Buffer::new(2, rows, None, None);
        b.lines.clear();
        let mut i = 0;
        while i < total {
            b.lines.push(any_line(2));
            i += 1;
        }
        let last = b.lines.len() - 1;
        b.lines[last].wrapped = false;
        let ccol: usize = kani::any();
        let crow: usize = kani::any();
        kani::assume(ccol < 2 && crow < rows);
        let off = total - rows;
        let ch = b.lines[off + crow].cells[ccol].char();
        kani::assume(ch != ' ');
        // logical text strictly above the cursor's logical line
        let mut first = off + crow;
        while first > 0 && b.lines[first - 1].wrapped {
            first -= 1;
        }
        let above_before = logical(&b.lines[..first]);
        let new_cols: usize = kani::any();
        let new_rows: usize = kani::any();
        kani::assume(new_cols >= 1 && new_cols <= 3 && new_rows >= 1 && new_rows <= 3);
        let (nc, nr) = b.resize(new_cols, new_rows, (ccol, crow));
        // [C02] geometry
        assert!(b.cols == new_cols && b.rows == new_rows && b.lines.len() >= new_rows);
        assert!(nc < new_cols && nr < new_rows);
        let noff = b.lines.len() - new_rows;
        // [C10] the cursor is still on the same character
        assert!(b.lines[noff + nr].cells[nc].char() == ch);
        // [C10] everything above the cursor's logical line is unchanged
        let mut nfirst = noff + nr;
        while nfirst > 0 && b.lines[nfirst - 1].wrapped {
            nfirst -= 1;
        }
        let above_after = logical(&b.lines[..nfirst]);
        assert!(above_before == above_after);
        kani::cover!(new_cols == 1 && total == 3);
    }
}
