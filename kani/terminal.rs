// append-to: src/terminal.rs
// harness: k_terminal_gc props=C13,C14,C16 kind=bounded tier=quick timeout=900 obligation=Terminal::gc(gc_rel: trims the active buffer, hands lines out only on the primary screen) bound="2x2 terminal, limit 0 or 1, <= 3 scrollback lines"
#[cfg(kani)]
mod verif_kani_terminal {
    use super::*;

    #[kani::proof]
    #[kani::unwind(8)]
    fn k_terminal_gc() {
        let limit: usize = if kani::any() { 0 } else { 1 };
        let mut t = Terminal::new((2, 2), Some(limit));
        let alt: bool = kani::any();
        if alt {
            t.switch_to_alternate_buffer();
        }
        // push `extra` tagged lines into the active buffer's scrollback
        let extra: usize = kani::any();
        kani::assume(extra <= 3);
        let mut i = 0;
        while i < extra {
            let mut l = Line::blank(2, Pen::default());
            l.print(0, Cell::new(if i == 0 { 'x' } else if i == 1 { 'y' } else { 'z' }, Pen::default()));
            t.buffer.lines.insert(i, l);
            i += 1;
        }
        t.buffer.trim_needed = true;
        let before: Vec<Line> = t.buffer.lines.clone();
        let other_before: Vec<Line> = t.other_buffer.lines.clone();
        let act_limit = if alt { 0 } else { limit };
        let hard = act_limit + act_limit / 10;
        let handed: Vec<Line> = t.gc().collect();
        let sb = before.len() - 2;
        let e = if sb > hard { sb - act_limit } else { 0 };
        // the active buffer lost exactly its e oldest lines; the rest is untouched
        assert!(t.buffer.lines.len() == before.len() - e);
        let mut j = 0;
        while j < t.buffer.lines.len() {
            assert!(t.buffer.lines[j] == before[j + e]);
            j += 1;
        }
        assert!(t.other_buffer.lines == other_before);
        // [C13] alternate screen keeps none; [C14] lines are handed out only from the primary
        if alt {
            assert!(handed.is_empty());
            assert!(t.buffer.lines.len() == 2);
        } else {
            assert!(handed.len() == e);
            let mut j = 0;
            while j < e {
                assert!(handed[j] == before[j]);
                j += 1;
            }
        }
        kani::cover!(!alt && e == 3);
        kani::cover!(alt && e == 3);
    }
}
