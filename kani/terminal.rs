// append-to: src/terminal.rs
// harness: k_terminal_gc_primary props=C13,C14 fns=Terminal::gc,Buffer::gc,Buffer::trim_scrollback kind=bounded tier=quick timeout=900 obligation="Terminal::gc(gc_rel on the primary screen: trims the buffer and hands the drained lines out in order)" bound="1x1 terminal, limit 1, 3 scrollback lines"
// harness: k_terminal_gc_alt props=C13,C14,C16 fns=Terminal::gc,Buffer::gc,Buffer::trim_scrollback kind=bounded tier=quick timeout=600 obligation="Terminal::gc(gc_rel on the alternate screen: trims to the visible rows and hands nothing out)" bound="1x1 terminal, 3 scrollback lines"
// harness: k_terminal_gc_other props=C13,C14,C16 fns=Terminal::gc,Buffer::gc,Buffer::trim_scrollback kind=bounded tier=quick timeout=600 obligation="Terminal::gc(gc_rel: the inactive buffer, with a trim pending, is left alone)" bound="1x1 terminal, limit 0, primary parked with one scrollback line and a pending trim, alternate screen active"
#[cfg(kani)]
mod verif_kani_terminal {
    use super::*;

    fn tag(i: usize) -> char {
        if i == 0 { 'x' } else if i == 1 { 'y' } else if i == 2 { 'z' } else { ' ' }
    }

    fn gc_case(limit: usize, alt: bool, extra: usize) {
        let mut t = Terminal::new((1, 1), Some(limit));
        if alt {
            t.switch_to_alternate_buffer();
        }
        // push `extra` tagged lines into the active buffer's scrollback
        let mut i = 0;
        while i < extra {
            let mut l = Line::blank(1, Pen::default());
            l.print(0, Cell::new(tag(i), Pen::default()));
            t.buffer.lines.insert(i, l);
            i += 1;
        }
        t.buffer.trim_needed = true;
        let len_before = t.buffer.lines.len();
        let other_len = t.other_buffer.lines.len();
        let act_limit = if alt { 0 } else { limit };
        let hard = act_limit + act_limit / 10;
        let mut n_handed = 0;
        let mut handed_ok = true;
        for l in t.gc() {
            if l.cells[0].char() != tag(n_handed) {
                handed_ok = false;
            }
            n_handed += 1;
        }
        let sb = len_before - 1;
        let e = if sb > hard { sb - act_limit } else { 0 };
        // the active buffer lost exactly its e oldest lines; the rest is untouched
        assert!(t.buffer.lines.len() == len_before - e);
        let mut j = 0;
        while j < t.buffer.lines.len() {
            assert!(t.buffer.lines[j].cells[0].char() == tag(j + e));
            j += 1;
        }
        assert!(t.other_buffer.lines.len() == other_len);
        // [C13] alternate screen keeps none; [C14] lines are handed out only from the primary
        if alt {
            assert!(n_handed == 0);
            assert!(t.buffer.lines.len() == 1);
        } else {
            assert!(n_handed == e && handed_ok);
        }
    }

    #[kani::proof]
    #[kani::unwind(8)]
    fn k_terminal_gc_primary() { gc_case(1, false, 3); kani::cover!(true); }
    #[kani::proof]
    #[kani::unwind(12)]
    fn k_terminal_gc_alt() { gc_case(1, true, 3); kani::cover!(true); }

    /// [C14,C16] gc() on the alternate screen must not trim the parked primary buffer: its excess
    /// lines are handed out (not dropped) by the first gc() after the switch back
    #[kani::proof]
    #[kani::unwind(12)]
    fn k_terminal_gc_other() {
        let mut t = Terminal::new((1, 1), Some(0));
        let mut l = Line::blank(1, Pen::default());
        l.print(0, Cell::new('x', Pen::default()));
        t.buffer.lines.insert(0, l);
        t.buffer.trim_needed = true;
        t.switch_to_alternate_buffer();
        let mut n = 0;
        for _l in t.gc() {
            n += 1;
        }
        assert!(n == 0);
        assert!(t.other_buffer.lines.len() == 2 && t.other_buffer.trim_needed);
        assert!(t.other_buffer.lines[0].cells[0].char() == 'x');
        kani::cover!(true);
    }
}
