#!/usr/bin/env python3
"""Seeded-change bookkeeping.

  mutants.py confirm DIR...   confirm each candidate (DIR holds mN.diff, mN_demo.rs, mN_notes.md):
                              in a scratch worktree the suite must pass with the change, the demo
                              must fail with it and pass without it; confirmed ones are copied to
                              /verif/seeded/<prop>-<n>/ (patch.diff, demo.rs, meta.json)
  mutants.py run [ID...]      for each /verif/seeded/<id>: apply patch.diff to /repo, run the Verus
                              side once (all obligations) and, if the patch touches a Kani-owned
                              file, the Kani units of the property; undo; record in meta.json which
                              obligations / properties raised the alarm
"""
import json
import os
import re
import shutil
import subprocess
import sys
import time

VERIF = os.path.dirname(os.path.abspath(__file__))
sys.path.insert(0, VERIF)
SEEDED = os.path.join(VERIF, "seeded")
REPO = os.environ.get("VERIF_REPO", "/repo")


def sh(cmd, cwd=None, timeout=1800):
    env = dict(os.environ, CARGO_NET_OFFLINE="true")
    p = subprocess.run(cmd, shell=True, cwd=cwd, env=env, stdout=subprocess.PIPE, stderr=subprocess.STDOUT, text=True, timeout=timeout)
    return p.returncode, p.stdout


def confirm(dirs):
    wt = "/tmp/mut/verify"
    if os.path.exists(wt):
        sh("git -C %s worktree remove --force %s" % (REPO, wt))
    rc, out = sh("git -C %s worktree add -q --detach %s HEAD" % (REPO, wt))
    assert rc == 0, out
    try:
        for d in dirs:
            prop = os.path.basename(os.path.normpath(d))
            for f in sorted(os.listdir(d)):
                m = re.match(r"m(\d+)\.diff$", f)
                if not m:
                    continue
                n = m.group(1)
                diff = os.path.join(d, f)
                demo = os.path.join(d, "m%s_demo.rs" % n)
                notes = os.path.join(d, "m%s_notes.md" % n)
                sid = "%s-%s" % (prop, n)
                sh("git checkout -q -- . && git clean -fdq", cwd=wt)
                rec = {"id": sid, "property": prop, "confirmed": False}
                rc, out = sh("git apply --check %s" % diff, cwd=wt)
                if rc != 0:
                    # the candidate was made against an older HEAD (before a fix: commit)?
                    rec["reason"] = "patch does not apply to current HEAD: " + out[-300:]
                    print(sid, "SKIP", rec["reason"])
                    continue
                shutil.copy(demo, os.path.join(wt, "tests", "seed_demo.rs"))
                rc0, out0 = sh("cargo test --offline --test seed_demo 2>&1 | tail -15", cwd=wt)
                ok_without = "test result: ok" in out0
                sh("git apply %s" % diff, cwd=wt)
                rc1, out1 = sh("cargo test --offline --test seed_demo 2>&1 | tail -15", cwd=wt)
                fails_with = "test result: FAILED" in out1 or "panicked" in out1
                os.remove(os.path.join(wt, "tests", "seed_demo.rs"))
                rc2, out2 = sh("cargo test --offline 2>&1 | grep -E '^test result|FAILED|error(\\[|:)' | head", cwd=wt)
                suite_ok = "FAILED" not in out2 and "error" not in out2 and out2.count("test result: ok") >= 2
                rec.update({"demo_passes_without": ok_without, "demo_fails_with": fails_with, "suite_passes_with": suite_ok})
                rec["confirmed"] = ok_without and fails_with and suite_ok
                print(sid, "confirmed" if rec["confirmed"] else "REJECTED", rec)
                if rec["confirmed"]:
                    dst = os.path.join(SEEDED, sid)
                    os.makedirs(dst, exist_ok=True)
                    shutil.copy(diff, os.path.join(dst, "patch.diff"))
                    shutil.copy(demo, os.path.join(dst, "demo.rs"))
                    meta = {"id": sid, "breaks_property": prop,
                            "needs_to_manifest": open(notes, encoding="utf-8").read() if os.path.exists(notes) else "",
                            "confirmed": {"suite_passes_with_change": True, "demo_fails_with_change": True, "demo_passes_without_change": True,
                                          "how": "scratch worktree /tmp/mut/verify: cargo test --offline (suite), cargo test --offline --test seed_demo with and without patch.diff",
                                          "at_repo_commit": sh("git -C %s rev-parse --short HEAD" % REPO)[1].strip()},
                            "source": "independent sub-agent given only the property text and its own worktree"}
                    json.dump(meta, open(os.path.join(dst, "meta.json"), "w"), indent=1)
    finally:
        sh("git -C %s worktree remove --force %s" % (REPO, wt))


KANI_FILES = {"src/tabs.rs": "C18"}
if os.environ.get("MUTANTS_KANI_ALL"):
    KANI_FILES.update({"src/terminal/dirty_lines.rs": "C15", "src/parser.rs": "C03", "src/line.rs": "C10", "src/buffer.rs": "C10", "src/vt.rs": "C12", "src/terminal.rs": "C13"})


def run(ids):
    import verus_run
    import kani_run
    rc, out = sh("git -C %s status --porcelain" % REPO)
    assert out.strip() == "", "/repo not clean: " + out
    ids = ids or sorted(os.listdir(SEEDED))
    for sid in ids:
        d = os.path.join(SEEDED, sid)
        patch = os.path.join(d, "patch.diff")
        if not os.path.exists(patch):
            continue
        meta = json.load(open(os.path.join(d, "meta.json")))
        prop = meta["breaks_property"]
        rc, out = sh("git -C %s apply %s" % (REPO, patch))
        if rc != 0:
            print(sid, "patch no longer applies")
            continue
        try:
            t0 = time.time()
            res = verus_run.run(REPO)
            fails = [{"obligation": f["obligation"], "tags": f["tags"], "message": f["message"]} for f in res.failures if "KF" not in f["tags"]]
            und = [u["reason"] for u in res.undecided]
            touched = re.findall(r"^\+\+\+ b/(\S+)", open(patch).read(), re.M)
            kfails = []
            kund = []
            if any(t in KANI_FILES for t in touched):
                hs = [u for u in kani_run.units() if u["target"] in touched and u["tier"] == "quick"]
                kres, _ = kani_run.run_harnesses(REPO, hs)
                for h in hs:
                    r = kres.get(h["name"], {})
                    if r.get("status") == "fail":
                        kfails.append({"obligation": h["obligation"], "tags": h["props"], "message": "kani " + h["name"]})
                    elif r.get("status") != "ok":
                        kund.append(h["name"])
            # reviewed-only glue (Vt::feed_str, Vt::resize): an edit leaves its properties undecided (check.py REVIEW_ONLY)
            import weave, check
            for key in weave.pinned_changed(REPO):
                short = key.split("::", 1)[1] if "::" in key else key
                if prop in check.REVIEW_ONLY.get(short, ()):
                    und.append("%s changed: reviewed-only glue, %s undecided" % (short, prop))
            if prop == "C01":
                for key in weave.pinned_changed(REPO):
                    short = key.split("::", 1)[1] if "::" in key else key
                    if short not in check.REVIEW_ONLY and not any(kani_run.touches(u, [key]) for u in kani_run.units()):
                        und.append("%s changed: outside both engines, C01 undecided" % short)
            allf = fails + kfails
            props = sorted(set(t for f in allf for t in f["tags"]))
            meta["detection"] = {"alarm_for_target_property": prop in props, "properties_alarmed": props,
                                 "failed_obligations": [f["obligation"] for f in allf][:12],
                                 "undecided": und + kund, "wall_s": round(time.time() - t0),
                                 "contracts_commit": sh("git -C %s rev-parse --short HEAD" % VERIF)[1].strip()}
            json.dump(meta, open(os.path.join(d, "meta.json"), "w"), indent=1)
            print("%-8s target=%s detected=%s props=%s undecided=%s :: %s" % (sid, prop, prop in props, ",".join(props), (und + kund)[:2], [f["obligation"] for f in allf][:4]))
        finally:
            sh("git -C %s checkout -- ." % REPO)


def summary():
    rows = []
    for sid in sorted(os.listdir(SEEDED)):
        mp = os.path.join(SEEDED, sid, "meta.json")
        if not os.path.exists(mp):
            continue
        m = json.load(open(mp))
        d = m.get("detection", {})
        first = (m.get("needs_to_manifest", "").strip().split("\n") or [""])[0][:110]
        rows.append("| %s | %s | %s | %s | %s | %s |" % (
            sid, m["breaks_property"], "yes" if d.get("alarm_for_target_property") else ("undecided" if d.get("undecided") else "NO"),
            ",".join(d.get("properties_alarmed", [])), "; ".join(d.get("failed_obligations", [])[:3]), d.get("contracts_commit", "")))
    hit = sum(1 for r in rows if "| yes |" in r)
    with open(os.path.join(SEEDED, "SUMMARY.md"), "w") as fh:
        fh.write("# Seeded changes: %d confirmed, %d raise an alarm for their target property\n\n" % (len(rows), hit))
        fh.write("| id | target | alarm for target | properties alarmed | first failed obligations | contracts commit |\n|---|---|---|---|---|---|\n")
        fh.write("\n".join(rows) + "\n")
    print("summary: %d/%d" % (hit, len(rows)))


if __name__ == "__main__":
    if sys.argv[1] == "confirm":
        confirm(sys.argv[2:])
    elif sys.argv[1] == "summary":
        summary()
    else:
        run(sys.argv[2:])
        summary()
