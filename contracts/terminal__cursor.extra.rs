impl vstd::std_specs::cmp::PartialEqSpecImpl<(usize, usize)> for Cursor {
    open spec fn obeys_eq_spec() -> bool { true }
    open spec fn eq_spec(&self, other: &(usize, usize)) -> bool { other.0 == self.col && other.1 == self.row }
}

impl vstd::std_specs::convert::FromSpecImpl<Cursor> for Option<(usize, usize)> {
    open spec fn obeys_from_spec() -> bool { true }
    open spec fn from_spec(c: Cursor) -> Option<(usize, usize)> { if c.visible { Some((c.col, c.row)) } else { None } }
}
