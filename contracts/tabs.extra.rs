/// strictly increasing (opaque: the two-variable quantifier is only revealed inside the lemmas
/// that need it; everywhere else sortedness is carried as an atom)
#[verifier::opaque]
pub open spec fn tabs_sorted(s: Seq<usize>) -> bool {
    forall|i: int, j: int| 0 <= i < j < s.len() ==> s[i] < s[j]
}

/// [C18] the default stops of a `cols`-wide terminal: 8, 16, 24, ... below `cols`
pub open spec fn default_tabs(cols: int) -> Seq<usize> {
    Seq::new(if cols >= 1 { ((cols - 1) / 8) as nat } else { 0 }, |i: int| (8 * (i + 1)) as usize)
}

/// [C18] multiples of 8 in `start..end`, ascending (including `start` itself when it is one)
pub open spec fn mult8_in(start: int, end: int) -> Seq<usize> {
    let first = if start <= 8 { 8 } else { ((start + 7) / 8) * 8 };
    Seq::new(if end > first { ((end - first + 7) / 8) as nat } else { 0 }, |i: int| (first + 8 * i) as usize)
}

/// number of stops strictly below `pos` (a prefix, because the stops are sorted)
pub open spec fn tabs_below(s: Seq<usize>, pos: int) -> int
    decreases s.len(),
{
    if s.len() == 0 { 0 } else if s[0] < pos { 1 + tabs_below(s.subrange(1, s.len() as int), pos) } else { 0 }
}

/// number of stops at or below `pos`
pub open spec fn tabs_upto(s: Seq<usize>, pos: int) -> int {
    tabs_below(s, pos + 1)
}

impl vstd::std_specs::cmp::PartialEqSpecImpl for Tabs {
    open spec fn obeys_eq_spec() -> bool { false }
    open spec fn eq_spec(&self, other: &Tabs) -> bool { self.0@ == other.0@ }
}

impl vstd::std_specs::cmp::PartialEqSpecImpl<Vec<usize>> for Tabs {
    open spec fn obeys_eq_spec() -> bool { false }
    open spec fn eq_spec(&self, other: &Vec<usize>) -> bool { self.0@ == other@ }
}

pub proof fn lemma_tabs_below_bounds(s: Seq<usize>, pos: int)
    ensures
        0 <= tabs_below(s, pos) <= s.len(),
    decreases s.len(),
{
    if s.len() > 0 && s[0] < pos {
        lemma_tabs_below_bounds(s.subrange(1, s.len() as int), pos);
    }
}

/// the first `tabs_below(s, pos)` stops are exactly the ones below `pos`
pub proof fn lemma_tabs_below_prefix(s: Seq<usize>, pos: int)
    requires
        tabs_sorted(s),
    ensures
        0 <= tabs_below(s, pos) <= s.len(),
        forall|i: int| 0 <= i < tabs_below(s, pos) ==> (#[trigger] s[i]) < pos,
        forall|i: int| tabs_below(s, pos) <= i < s.len() ==> (#[trigger] s[i]) >= pos,
    decreases s.len(),
{
    reveal(tabs_sorted);
    if s.len() > 0 {
        let t = s.subrange(1, s.len() as int);
        assert(tabs_sorted(t)) by {
            assert forall|i: int, j: int| 0 <= i < j < t.len() implies t[i] < t[j] by {
                assert(t[i] == s[i + 1]);
                assert(t[j] == s[j + 1]);
            }
        }
        if s[0] < pos {
            lemma_tabs_below_prefix(t, pos);
            assert forall|i: int| 0 <= i < tabs_below(s, pos) implies (#[trigger] s[i]) < pos by {
                if i > 0 { assert(s[i] == t[i - 1]); }
            }
            assert forall|i: int| tabs_below(s, pos) <= i < s.len() implies (#[trigger] s[i]) >= pos by {
                assert(s[i] == t[i - 1]);
            }
        } else {
            assert forall|i: int| 0 <= i < s.len() implies (#[trigger] s[i]) >= pos by {
                if i > 0 { assert(s[0] < s[i]); }
            }
        }
    }
}

/// [C18] what `mult8_in` contains
pub proof fn lemma_mult8_in(start: int, end: int)
    requires
        0 <= start <= end <= crate::MEM_MAX,
    ensures
        tabs_sorted(mult8_in(start, end)),
        forall|i: int| 0 <= i < mult8_in(start, end).len() ==> start <= (#[trigger] mult8_in(start, end)[i]) < end && mult8_in(start, end)[i] >= 8 && mult8_in(start, end)[i] % 8 == 0,
{
    reveal(tabs_sorted);
    let first = if start <= 8 { 8 } else { ((start + 7) / 8) * 8 };
    let m = mult8_in(start, end);
    assert forall|i: int| 0 <= i < m.len() implies start <= (#[trigger] m[i]) < end && m[i] >= 8 && m[i] % 8 == 0 by {
        assert(first + 8 * i < end) by (nonlinear_arith)
            requires 0 <= i < ((end - first + 7) / 8), end > first;
        assert((first + 8 * i) % 8 == 0) by (nonlinear_arith)
            requires first % 8 == 0, i >= 0;
    }
}
