/// strictly increasing
pub open spec fn tabs_sorted(s: Seq<usize>) -> bool {
    forall|i: int, j: int| 0 <= i < j < s.len() ==> s[i] < s[j]
}

/// [C18] the default stops of a `cols`-wide terminal: 8, 16, 24, ... below `cols`
pub open spec fn default_tabs(cols: int) -> Seq<usize> {
    Seq::new(if cols >= 1 { ((cols - 1) / 8) as nat } else { 0 }, |i: int| (8 * (i + 1)) as usize)
}

/// [C18] multiples of 8 in `start..end`, ascending (including `start` itself when it is one)
pub open spec fn mult8_in(start: int, end: int) -> Seq<usize> {
    let first = if start <= 8 { 8 } else { ((start + 7) / 8) * 8 };
    Seq::new(if end > first { ((end - first + 7) / 8) as nat } else { 0 }, |i: int| (first + 8 * i) as usize)
}

/// number of stops strictly below `pos` (a prefix, because the stops are sorted)
pub open spec fn tabs_below(s: Seq<usize>, pos: int) -> int
    decreases s.len(),
{
    if s.len() == 0 { 0 } else if s[0] < pos { 1 + tabs_below(s.subrange(1, s.len() as int), pos) } else { 0 }
}

/// number of stops at or below `pos`
pub open spec fn tabs_upto(s: Seq<usize>, pos: int) -> int {
    tabs_below(s, pos + 1)
}

impl vstd::std_specs::cmp::PartialEqSpecImpl for Tabs {
    open spec fn obeys_eq_spec() -> bool { false }
    open spec fn eq_spec(&self, other: &Tabs) -> bool { self.0@ == other.0@ }
}

impl vstd::std_specs::cmp::PartialEqSpecImpl<Vec<usize>> for Tabs {
    open spec fn obeys_eq_spec() -> bool { false }
    open spec fn eq_spec(&self, other: &Vec<usize>) -> bool { self.0@ == other@ }
}

pub proof fn lemma_tabs_below_bounds(s: Seq<usize>, pos: int)
    ensures
        0 <= tabs_below(s, pos) <= s.len(),
    decreases s.len(),
{
    if s.len() > 0 && s[0] < pos {
        lemma_tabs_below_bounds(s.subrange(1, s.len() as int), pos);
    }
}
