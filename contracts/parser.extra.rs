use crate::color::rgb_of;

impl vstd::std_specs::cmp::PartialEqSpecImpl for State {
    open spec fn obeys_eq_spec() -> bool { true }
    open spec fn eq_spec(&self, other: &State) -> bool { *self == *other }
}

impl vstd::std_specs::cmp::PartialEqSpecImpl<u16> for Param {
    open spec fn obeys_eq_spec() -> bool { false }
    open spec fn eq_spec(&self, other: &u16) -> bool { self.parts[0] == *other }
}

impl vstd::std_specs::convert::FromSpecImpl<u16> for Param {
    open spec fn obeys_from_spec() -> bool { false }
    open spec fn from_spec(v: u16) -> Param { Param { cur_part: 0, parts: [v, 0, 0, 0, 0, 0] } }
}

impl Param {
    /// sub-parameter index in range, everything above it zero (so `clear()`, which only
    /// zeroes up to the high-water mark, is a full reset)
    pub open spec fn wf(&self) -> bool {
        &&& self.cur_part < MAX_PARAM_LEN
        &&& forall|j: int| self.cur_part < j < MAX_PARAM_LEN ==> #[trigger] self.parts[j] == 0
    }

    pub open spec fn is_zero(&self) -> bool {
        &&& self.cur_part == 0
        &&& forall|j: int| 0 <= j < MAX_PARAM_LEN ==> #[trigger] self.parts[j] == 0
    }
}

impl Parser {
    pub open spec fn wf(&self) -> bool {
        &&& self.cur_param < PARAMS_LEN
        &&& forall|i: int| 0 <= i < PARAMS_LEN ==> (#[trigger] self.params[i]).wf()
        &&& forall|i: int| self.cur_param < i < PARAMS_LEN ==> (#[trigger] self.params[i]).is_zero()
    }

    /// all parameters zero, no intermediate: the state every sequence starts from (C03
    /// "independent of whatever sequences were parsed before")
    pub open spec fn is_clear(&self) -> bool {
        &&& self.cur_param == 0
        &&& self.intermediate is None
        &&& forall|i: int| 0 <= i < PARAMS_LEN ==> (#[trigger] self.params[i]).is_zero()
    }
}

// ---- C03 oracle: Paul Williams' DEC-compatible parser, by state x character class ----------

pub enum Act { Ignore, Print, Execute, EscDispatch, CsiDispatch, Param, Collect, Clear }

pub struct Tr { pub next: State, pub act: Act }

/// deviation: every code point >= U+00A0 is treated like an ordinary final-class printable
pub open spec fn fold(c: char) -> u32 { if c as u32 >= 0xa0 { 0x41 } else { c as u32 } }

pub open spec fn is_c0(x: u32) -> bool { x <= 0x17 || x == 0x19 || (0x1c <= x <= 0x1f) }

pub open spec fn williams(s: State, c: char) -> Tr {
    let x = fold(c);
    // "anywhere" transitions
    if x == 0x1b { Tr { next: State::Escape, act: Act::Clear } }
    else if x == 0x18 || x == 0x1a { Tr { next: State::Ground, act: Act::Execute } }
    else if (0x80 <= x <= 0x8f) || (0x91 <= x <= 0x97) || x == 0x99 || x == 0x9a { Tr { next: State::Ground, act: Act::Execute } }
    else if x == 0x9c { Tr { next: State::Ground, act: Act::Ignore } }
    else if x == 0x98 || x == 0x9e || x == 0x9f { Tr { next: State::SosPmApcString, act: Act::Ignore } }
    else if x == 0x90 { Tr { next: State::DcsEntry, act: Act::Clear } }
    else if x == 0x9d { Tr { next: State::OscString, act: Act::Ignore } }
    else if x == 0x9b { Tr { next: State::CsiEntry, act: Act::Clear } }
    else {
        match s {
            State::Ground =>
                if is_c0(x) { Tr { next: s, act: Act::Execute } }
                else { Tr { next: s, act: Act::Print } },   // 0x20..=0x7f
            State::Escape =>
                if is_c0(x) { Tr { next: s, act: Act::Execute } }
                else if 0x20 <= x <= 0x2f { Tr { next: State::EscapeIntermediate, act: Act::Collect } }
                else if x == 0x5b { Tr { next: State::CsiEntry, act: Act::Clear } }
                else if x == 0x5d { Tr { next: State::OscString, act: Act::Ignore } }
                else if x == 0x50 { Tr { next: State::DcsEntry, act: Act::Clear } }
                else if x == 0x58 || x == 0x5e || x == 0x5f { Tr { next: State::SosPmApcString, act: Act::Ignore } }
                else if x == 0x7f { Tr { next: s, act: Act::Ignore } }
                else { Tr { next: State::Ground, act: Act::EscDispatch } },   // remaining 0x30..=0x7e
            State::EscapeIntermediate =>
                if is_c0(x) { Tr { next: s, act: Act::Execute } }
                else if 0x20 <= x <= 0x2f { Tr { next: s, act: Act::Collect } }
                else if x == 0x7f { Tr { next: s, act: Act::Ignore } }
                else { Tr { next: State::Ground, act: Act::EscDispatch } },   // 0x30..=0x7e
            State::CsiEntry =>
                if is_c0(x) { Tr { next: s, act: Act::Execute } }
                else if 0x20 <= x <= 0x2f { Tr { next: State::CsiIntermediate, act: Act::Collect } }
                else if x == 0x3a { Tr { next: State::CsiIgnore, act: Act::Ignore } }
                else if (0x30 <= x <= 0x39) || x == 0x3b { Tr { next: State::CsiParam, act: Act::Param } }
                else if 0x3c <= x <= 0x3f { Tr { next: State::CsiParam, act: Act::Collect } }
                else if x == 0x7f { Tr { next: s, act: Act::Ignore } }
                else { Tr { next: State::Ground, act: Act::CsiDispatch } },   // 0x40..=0x7e
            State::CsiParam =>
                if is_c0(x) { Tr { next: s, act: Act::Execute } }
                else if 0x30 <= x <= 0x3b { Tr { next: s, act: Act::Param } }   // deviation: ':' separates sub-parameters
                else if 0x3c <= x <= 0x3f { Tr { next: State::CsiIgnore, act: Act::Ignore } }
                else if 0x20 <= x <= 0x2f { Tr { next: State::CsiIntermediate, act: Act::Collect } }
                else if x == 0x7f { Tr { next: s, act: Act::Ignore } }
                else { Tr { next: State::Ground, act: Act::CsiDispatch } },
            State::CsiIntermediate =>
                if is_c0(x) { Tr { next: s, act: Act::Execute } }
                else if 0x20 <= x <= 0x2f { Tr { next: s, act: Act::Collect } }
                else if 0x30 <= x <= 0x3f { Tr { next: State::CsiIgnore, act: Act::Ignore } }
                else if x == 0x7f { Tr { next: s, act: Act::Ignore } }
                else { Tr { next: State::Ground, act: Act::CsiDispatch } },
            State::CsiIgnore =>
                if is_c0(x) { Tr { next: s, act: Act::Execute } }
                else if (0x20 <= x <= 0x3f) || x == 0x7f { Tr { next: s, act: Act::Ignore } }
                else { Tr { next: State::Ground, act: Act::Ignore } },   // 0x40..=0x7e
            State::DcsEntry =>
                if is_c0(x) || x == 0x7f { Tr { next: s, act: Act::Ignore } }
                else if 0x20 <= x <= 0x2f { Tr { next: State::DcsIntermediate, act: Act::Collect } }
                else if x == 0x3a { Tr { next: State::DcsIgnore, act: Act::Ignore } }
                else if (0x30 <= x <= 0x39) || x == 0x3b { Tr { next: State::DcsParam, act: Act::Param } }
                else if 0x3c <= x <= 0x3f { Tr { next: State::DcsParam, act: Act::Collect } }
                else { Tr { next: State::DcsPassthrough, act: Act::Ignore } },
            State::DcsParam =>
                if is_c0(x) || x == 0x7f { Tr { next: s, act: Act::Ignore } }
                else if (0x30 <= x <= 0x39) || x == 0x3b { Tr { next: s, act: Act::Param } }
                else if x == 0x3a || (0x3c <= x <= 0x3f) { Tr { next: State::DcsIgnore, act: Act::Ignore } }
                else if 0x20 <= x <= 0x2f { Tr { next: State::DcsIntermediate, act: Act::Collect } }
                else { Tr { next: State::DcsPassthrough, act: Act::Ignore } },
            State::DcsIntermediate =>
                if is_c0(x) || x == 0x7f { Tr { next: s, act: Act::Ignore } }
                else if 0x20 <= x <= 0x2f { Tr { next: s, act: Act::Collect } }
                else if 0x30 <= x <= 0x3f { Tr { next: State::DcsIgnore, act: Act::Ignore } }
                else { Tr { next: State::DcsPassthrough, act: Act::Ignore } },
            State::DcsPassthrough => Tr { next: s, act: Act::Ignore },
            State::DcsIgnore => Tr { next: s, act: Act::Ignore },
            State::OscString =>
                if x == 0x07 { Tr { next: State::Ground, act: Act::Ignore } }   // deviation: BEL ends OSC
                else { Tr { next: s, act: Act::Ignore } },
            State::SosPmApcString => Tr { next: s, act: Act::Ignore },
        }
    }
}

/// [C03] C0 / C1 control functions (VT100/ECMA-48): BS HT LF VT FF CR SO SI, IND NEL HTS RI
pub open spec fn c0c1_table(c: char) -> Option<Function> {
    let x = c as u32;
    if x == 0x08 { Some(Function::Bs) }
    else if x == 0x09 { Some(Function::Ht) }
    else if x == 0x0a || x == 0x0b || x == 0x0c { Some(Function::Lf) }
    else if x == 0x0d { Some(Function::Cr) }
    else if x == 0x0e { Some(Function::So) }
    else if x == 0x0f { Some(Function::Si) }
    else if x == 0x84 { Some(Function::Lf) }
    else if x == 0x85 { Some(Function::Nel) }
    else if x == 0x88 { Some(Function::Hts) }
    else if x == 0x8d { Some(Function::Ri) }
    else { None }
}

/// [C03] ESC dispatch: a 7-bit `ESC Fe` (0x40..=0x5f, no intermediate) acts exactly like its
/// 8-bit C1 counterpart; DECSC DECRC RIS DECALN and G0/G1 designation
pub open spec fn esc_table(intermediate: Option<char>, c: char) -> Option<Function> {
    let x = c as u32;
    match intermediate {
        None =>
            if 0x40 <= x <= 0x5f { c0c1_table(((x + 0x40) as u8) as char) }
            else if c == '7' { Some(Function::Decsc) }
            else if c == '8' { Some(Function::Decrc) }
            else if c == 'c' { Some(Function::Ris) }
            else { None },
        Some(i) =>
            if i == '#' { if c == '8' { Some(Function::Decaln) } else { None } }
            else if i == '(' { Some(Function::Gzd4(if c == '0' { Charset::Drawing } else { Charset::Ascii })) }
            else if i == ')' { Some(Function::G1d4(if c == '0' { Charset::Drawing } else { Charset::Ascii })) }
            else { None },
    }
}

/// the mode / SGR lists of the five list-valued CSI functions are computed by iterator chains
/// outside Verus's subset; they are uninterpreted here and pinned down by the Kani harnesses
pub uninterp spec fn ansi_modes_of(ps: [Param; PARAMS_LEN], cur: usize) -> Seq<AnsiMode>;
pub uninterp spec fn dec_modes_of(ps: [Param; PARAMS_LEN], cur: usize) -> Seq<DecMode>;
pub uninterp spec fn sgr_ops_of(ps: [Param; PARAMS_LEN], cur: usize) -> Seq<SgrOp>;

pub open spec fn vec_fun_matches(r: Option<Function>, want: int, ps: [Param; PARAMS_LEN], cur: usize) -> bool {
    match r {
        Some(Function::Sm(v)) => want == 0 && v@ == ansi_modes_of(ps, cur),
        Some(Function::Rm(v)) => want == 1 && v@ == ansi_modes_of(ps, cur),
        Some(Function::Sgr(v)) => want == 2 && v@ == sgr_ops_of(ps, cur),
        Some(Function::Decset(v)) => want == 3 && v@ == dec_modes_of(ps, cur),
        Some(Function::Decrst(v)) => want == 4 && v@ == dec_modes_of(ps, cur),
        _ => false,
    }
}

/// [C03,C20] the CSI dispatch table: final byte (and prefix / intermediate) -> function with
/// the parameters as written; everything not listed is inert
pub open spec fn csi_scalar(ps: [Param; PARAMS_LEN], intermediate: Option<char>, c: char) -> Option<Function> {
    let p0 = ps[0].parts[0];
    let p1 = ps[1].parts[0];
    let p2 = ps[2].parts[0];
    match intermediate {
        None =>
            if c == '@' { Some(Function::Ich(p0)) }
            else if c == 'A' { Some(Function::Cuu(p0)) }
            else if c == 'B' { Some(Function::Cud(p0)) }
            else if c == 'C' { Some(Function::Cuf(p0)) }
            else if c == 'D' { Some(Function::Cub(p0)) }
            else if c == 'E' { Some(Function::Cnl(p0)) }
            else if c == 'F' { Some(Function::Cpl(p0)) }
            else if c == 'G' { Some(Function::Cha(p0)) }
            else if c == 'H' { Some(Function::Cup(p0, p1)) }
            else if c == 'I' { Some(Function::Cht(p0)) }
            else if c == 'J' { if p0 == 0 { Some(Function::Ed(EdScope::Below)) } else if p0 == 1 { Some(Function::Ed(EdScope::Above)) } else if p0 == 2 { Some(Function::Ed(EdScope::All)) } else if p0 == 3 { Some(Function::Ed(EdScope::SavedLines)) } else { None } }
            else if c == 'K' { if p0 == 0 { Some(Function::El(ElScope::ToRight)) } else if p0 == 1 { Some(Function::El(ElScope::ToLeft)) } else if p0 == 2 { Some(Function::El(ElScope::All)) } else { None } }
            else if c == 'L' { Some(Function::Il(p0)) }
            else if c == 'M' { Some(Function::Dl(p0)) }
            else if c == 'P' { Some(Function::Dch(p0)) }
            else if c == 'S' { Some(Function::Su(p0)) }
            else if c == 'T' { Some(Function::Sd(p0)) }
            else if c == 'W' { if p0 == 0 { Some(Function::Ctc(CtcOp::Set)) } else if p0 == 2 { Some(Function::Ctc(CtcOp::ClearCurrentColumn)) } else if p0 == 5 { Some(Function::Ctc(CtcOp::ClearAll)) } else { None } }
            else if c == 'X' { Some(Function::Ech(p0)) }
            else if c == 'Z' { Some(Function::Cbt(p0)) }
            else if c == '`' { Some(Function::Cha(p0)) }
            else if c == 'a' { Some(Function::Cuf(p0)) }
            else if c == 'b' { Some(Function::Rep(p0)) }
            else if c == 'd' { Some(Function::Vpa(p0)) }
            else if c == 'e' { Some(Function::Vpr(p0)) }
            else if c == 'f' { Some(Function::Cup(p0, p1)) }
            else if c == 'g' { if p0 == 0 { Some(Function::Tbc(TbcScope::CurrentColumn)) } else if p0 == 3 { Some(Function::Tbc(TbcScope::All)) } else { None } }
            else if c == 'r' { Some(Function::Decstbm(p0, p1)) }
            else if c == 's' { Some(Function::Scosc) }
            else if c == 't' { if p0 == 8 { Some(Function::Xtwinops(XtwinopsOp::Resize(p2, p1))) } else { None } }
            else if c == 'u' { Some(Function::Scorc) }
            else { None },
        Some(i) =>
            if i == '!' && c == 'p' { Some(Function::Decstr) } else { None },
    }
}

/// which of the five list-valued functions (if any) a CSI final selects: 0 SM, 1 RM, 2 SGR,
/// 3 DECSET, 4 DECRST
pub open spec fn csi_vec_kind(intermediate: Option<char>, c: char) -> int {
    match intermediate {
        None => if c == 'h' { 0 } else if c == 'l' { 1 } else if c == 'm' { 2 } else { -1 },
        Some(i) => if i == '?' && c == 'h' { 3 } else if i == '?' && c == 'l' { 4 } else { -1 },
    }
}

pub open spec fn csi_matches(r: Option<Function>, ps: [Param; PARAMS_LEN], cur: usize, intermediate: Option<char>, c: char) -> bool {
    if csi_vec_kind(intermediate, c) >= 0 { vec_fun_matches(r, csi_vec_kind(intermediate, c), ps, cur) }
    else { r == csi_scalar(ps, intermediate, c) }
}

/// [C03] effect of a parameter character on the parameter under construction
pub open spec fn param_step(p: Param, c: char) -> Param {
    if c == ':' {
        Param { cur_part: if p.cur_part + 1 < 5 { (p.cur_part + 1) as usize } else { 5usize }, parts: p.parts }
    } else {
        // digit: (10 * v + d) mod 2^16
        Param { cur_part: p.cur_part, parts: p.parts }   // value stated separately (array update)
    }
}

/// [C03,C08] "up to 32 parameters", "up to 6 sub-parameters"
pub proof fn lemma_param_capacity()
    ensures
        PARAMS_LEN == 32,
        MAX_PARAM_LEN == 6,
{
}
