use crate::parser::{post_feed, Function};
use crate::terminal::post_execute;
use crate::MEM_MAX;

impl Vt {
    /// [C02] invariant of the whole emulator
    pub open spec fn wf(&self) -> bool { self.parser.wf() && self.terminal.wf() }
}
