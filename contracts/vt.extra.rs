
impl Vt {
    /// [C02] invariant of the whole emulator
    pub open spec fn wf(&self) -> bool { self.parser.wf() && self.terminal.wf() }
}

/// [C12,KF] FINDING F2 (fails on the pinned tree, listed in known_findings.txt): C12 demands the
/// same lines() whether the input is fed with feed_str or one character at a time.  feed_str
/// ends with gc(), feed() never trims - so while the alternate screen is showing (its buffer has
/// scrollback limit 0) feed() lets lines() grow beyond the visible rows, e.g. 8x3,
/// "\x1b[?1049h1\r\n2\r\n3\r\n4\r\n5\r\n6": lines().len() is 3 after feed_str and 6 after feed().
pub proof fn finding_c12_feed_does_not_trim(o: Vt, f: Vt, input: char)
    requires
        o.wf(),
        post_vt_feed(o, f, input),
        o.terminal.active_buffer_type == crate::terminal::BufferType::Alternate,
        f.terminal.active_buffer_type == crate::terminal::BufferType::Alternate,
        o.terminal.buffer.off() == 0,
    ensures
        f.terminal.buffer.off() == 0,
{
}
