// C09 - "logical text is reproduced exactly, whatever the width": the inductive invariant over a
// history of printable characters and CR LF line breaks, stated at cell level over the generated
// postconditions of Terminal::print / cr / lf (pure Verus, no executable code).
#![allow(unused_imports)]
use vstd::prelude::*;
use crate::parser::*;
use crate::terminal::*;
use crate::buffer::*;
use crate::line::*;
use crate::pen::*;
use crate::cell::*;
use crate::charset::*;

verus! {

pub open spec fn dp() -> Pen { Pen::default_spec() }

/// the cells a text occupies (default pen: the input class of C09 contains no SGR)
pub open spec fn text_cells(s: Seq<char>) -> Seq<Cell> {
    Seq::new(s.len(), |i: int| Cell(s[i], dp()))
}

/// the part of the state that printable characters, CR and LF never change
pub open spec fn plain(t: Terminal) -> bool {
    &&& t.wf()
    &&& !t.insert_mode && t.auto_wrap_mode && !t.new_line_mode
    &&& t.top_margin == 0 && t.bottom_margin == t.rows - 1
    &&& t.pen == dp()
    &&& t.charsets[t.active_charset as int] == Charset::Ascii
}

/// absolute index of the cursor's row
pub open spec fn arow(t: Terminal) -> int { t.buffer.off() + t.cursor.row }

/// THE INVARIANT.  `done[j]` = the cells of finished logical line j (frozen when its LF arrived),
/// `cur` = the characters received since the last line break, `after_cr` = a CR has been seen and
/// its LF is due.  Nothing here depends on the width other than through the wrapping itself.
pub open spec fn c09_inv(t: Terminal, done: Seq<Seq<Cell>>, cur: Seq<char>, after_cr: bool) -> bool {
    let ls = t.buffer.lines@;
    let n = t.buffer.len();
    let a = arow(t);
    let cols = t.cols as int;
    let k = run_before(ls, a);
    let cl = lline(ls, done.len() as int, a + 1);
    &&& plain(t)
    &&& ends_before(ls, a) == done.len()
    &&& !ls[a].wrapped
    &&& (forall|j: int| 0 <= j < done.len() ==> #[trigger] lline(ls, j, n) == done[j])
    &&& cl.len() == (k + 1) * cols
    &&& cur.len() <= cl.len()
    &&& cl == text_cells(cur) + blank_cells(cl.len() - cur.len(), dp())
    &&& (forall|i: int| a < i < n ==> (#[trigger] ls[i]).v() == blank_line(cols, dp()))
    &&& (if after_cr { t.cursor.col == 0 && !t.pending_wrap } else { cur.len() == k * cols + t.cursor.col })
}

// ---- sequence facts ----------------------------------------------------------------------

/// [C09] writing the next character of the text into the first blank
pub proof fn lemma_text_push(cl: Seq<Cell>, cur: Seq<char>, c: char)
    requires
        cur.len() < cl.len(),
        cl == text_cells(cur) + blank_cells(cl.len() - cur.len(), dp()),
    ensures
        cl.update(cur.len() as int, Cell(c, dp())) == text_cells(cur.push(c)) + blank_cells(cl.len() - cur.len() - 1, dp()),
{
    let l = cl.update(cur.len() as int, Cell(c, dp()));
    let r = text_cells(cur.push(c)) + blank_cells(cl.len() - cur.len() - 1, dp());
    assert(l.len() == r.len());
    assert forall|i: int| 0 <= i < l.len() implies l[i] == r[i] by {
        if i < cur.len() {
            assert(cl[i] == text_cells(cur)[i]);
            assert(cur.push(c)[i] == cur[i]);
        } else if i == cur.len() {
            assert(cur.push(c)[i] == c);
        } else {
            assert(cl[i] == blank_cells(cl.len() - cur.len(), dp())[i - cur.len()]);
        }
    }
    assert(l =~= r);
}

/// [C09] a full row of text followed by a fresh row that received one character
pub proof fn lemma_text_wrap(cl: Seq<Cell>, cur: Seq<char>, c: char, cols: int)
    requires
        cols >= 1,
        cur.len() == cl.len(),
        cl == text_cells(cur) + blank_cells(0, dp()),
    ensures
        cl + blank_cells(cols, dp()).update(0, Cell(c, dp())) == text_cells(cur.push(c)) + blank_cells(cols - 1, dp()),
{
    let l = cl + blank_cells(cols, dp()).update(0, Cell(c, dp()));
    let r = text_cells(cur.push(c)) + blank_cells(cols - 1, dp());
    assert(l.len() == r.len());
    assert forall|i: int| 0 <= i < l.len() implies l[i] == r[i] by {
        if i < cur.len() {
            assert(cl[i] == text_cells(cur)[i]);
            assert(cur.push(c)[i] == cur[i]);
        } else if i == cur.len() {
            assert(cur.push(c)[i] == c);
        }
    }
    assert(l =~= r);
}

// ---- what one step does to the rows, in absolute row numbers -------------------------------

/// [C09] (A) a character written into the cursor's row
pub proof fn lemma_c09_core_same_row(ols: Seq<Line>, fls: Seq<Line>, a: int, l: int, pos: int, cell: Cell)
    requires
        0 <= a < ols.len(),
        fls.len() == ols.len(),
        forall|i: int| 0 <= i < ols.len() && i != a ==> (#[trigger] fls[i]).v() == ols[i].v(),
        fls[a].wrapped == ols[a].wrapped,
        0 <= pos < ols[a].cells@.len(),
        fls[a].cells@ == ols[a].cells@.update(pos, cell),
        ends_before(ols, a) == l,
    ensures
        ends_before(fls, a) == l,
        run_before(fls, a) == run_before(ols, a),
        forall|j: int| 0 <= j < l ==> #[trigger] lline(fls, j, fls.len() as int) == lline(ols, j, ols.len() as int),
        lline(fls, l, a + 1) == lline(ols, l, a + 1).update(lline(ols, l, a).len() + pos, cell),
{
    assert forall|i: int| 0 <= i < a implies (#[trigger] ols[i]).wrapped == fls[i].wrapped && ols[i].cells@ == fls[i].cells@ by {
        assert(fls[i].v() == ols[i].v());
    }
    lemma_ends_prefix(ols, fls, a);
    lemma_logical_kept(ols, fls, a);
    lemma_lline_prefix(ols, fls, l, a);
    assert(lline(fls, l, a + 1) == lline(fls, l, a) + fls[a].cells@);
    assert(lline(ols, l, a + 1) == lline(ols, l, a) + ols[a].cells@);
    assert(lline(fls, l, a + 1) =~= lline(ols, l, a + 1).update(lline(ols, l, a).len() + pos, cell));
}

/// [C09] (B) the deferred wrap: the cursor's row gets the wrap mark, the character lands in column 0 of
/// the next row (which exists or was just created by the scroll)
pub proof fn lemma_c09_core_next_row(ols: Seq<Line>, fls: Seq<Line>, a: int, l: int, cell: Cell, cols: int)
    requires
        0 <= a < ols.len(),
        fls.len() >= a + 2,
        cols >= 1,
        forall|i: int| 0 <= i < a ==> (#[trigger] fls[i]).v() == ols[i].v(),
        fls[a].cells@ == ols[a].cells@,
        fls[a].wrapped,
        fls[a + 1].cells@ == blank_cells(cols, dp()).update(0, cell),
        ends_before(ols, a) == l,
    ensures
        ends_before(fls, a + 1) == l,
        run_before(fls, a + 1) == run_before(ols, a) + 1,
        forall|j: int| 0 <= j < l ==> #[trigger] lline(fls, j, fls.len() as int) == lline(ols, j, ols.len() as int),
        lline(fls, l, a + 2) == lline(ols, l, a + 1) + blank_cells(cols, dp()).update(0, cell),
{
    assert forall|i: int| 0 <= i < a implies (#[trigger] ols[i]).wrapped == fls[i].wrapped && ols[i].cells@ == fls[i].cells@ by {
        assert(fls[i].v() == ols[i].v());
    }
    lemma_ends_prefix(ols, fls, a);
    lemma_logical_kept(ols, fls, a);
    lemma_lline_prefix(ols, fls, l, a);
    assert(ends_before(fls, a + 1) == ends_before(fls, a));
    assert(run_before(fls, a + 1) == run_before(fls, a) + 1);
    assert(lline(fls, l, a + 1) == lline(fls, l, a) + fls[a].cells@);
    assert(lline(ols, l, a + 1) == lline(ols, l, a) + ols[a].cells@);
    assert(lline(fls, l, a + 2) == lline(fls, l, a + 1) + fls[a + 1].cells@);
}

/// [C09] (C) the line break: every row up to the cursor's is kept, the next row is blank
pub proof fn lemma_c09_core_lf(ols: Seq<Line>, fls: Seq<Line>, a: int, l: int, cols: int)
    requires
        0 <= a < ols.len(),
        fls.len() >= a + 2,
        forall|i: int| 0 <= i <= a ==> (#[trigger] fls[i]).v() == ols[i].v(),
        !ols[a].wrapped,
        fls[a + 1].v() == blank_line(cols, dp()),
        ends_before(ols, a) == l,
    ensures
        ends_before(fls, a + 1) == l + 1,
        run_before(fls, a + 1) == 0,
        forall|j: int| 0 <= j < l ==> #[trigger] lline(fls, j, fls.len() as int) == lline(ols, j, ols.len() as int),
        lline(fls, l, fls.len() as int) == lline(ols, l, a + 1),
        lline(fls, l + 1, a + 2) == blank_cells(cols, dp()),
{
    assert forall|i: int| 0 <= i < a + 1 implies (#[trigger] ols[i]).wrapped == fls[i].wrapped && ols[i].cells@ == fls[i].cells@ by {
        assert(fls[i].v() == ols[i].v());
    }
    lemma_ends_prefix(ols, fls, a);
    lemma_ends_prefix(ols, fls, a + 1);
    lemma_logical_kept(ols, fls, a);
    assert(ends_before(ols, a + 1) == l + 1);
    assert(!fls[a].wrapped);
    lemma_lline_done(fls, l, a + 1, fls.len() as int);
    lemma_lline_prefix(ols, fls, l, a + 1);
    lemma_lline_empty(fls, l + 1, a + 1);
    assert(lline(fls, l + 1, a + 2) == lline(fls, l + 1, a + 1) + fls[a + 1].cells@);
    assert(lline(fls, l + 1, a + 2) =~= blank_cells(cols, dp()));
}

// ---- the three steps -----------------------------------------------------------------------

/// [C09] a character, whatever it is: appended to the current logical line; finished lines
/// untouched; the wrap mark is set exactly when the character does not fit
pub proof fn lemma_c09_print(o: Terminal, f: Terminal, done: Seq<Seq<Cell>>, cur: Seq<char>, c: char)
    requires
        c09_inv(o, done, cur, false),
        post_print(o, f, c),
    ensures
        c09_inv(f, done, cur.push(c), false),
{
    let ols = o.buffer.lines@;
    let fls = f.buffer.lines@;
    let a = arow(o);
    let cols = o.cols as int;
    let l = done.len() as int;
    let k = run_before(ols, a);
    let cl = lline(ols, l, a + 1);
    let cell = Cell(c, dp());
    assert(o.print_cell(c) == cell);
    assert(cl == lline(ols, l, a) + ols[a].cells@);
    assert(ols[a].cells@.len() == cols);
    assert((k + 1) * cols == k * cols + cols) by (nonlinear_arith);
    assert(lline(ols, l, a).len() == k * cols);
    assert(ols[a] == o.buffer.row(o.cursor.row as int));
    if !o.pending_wrap {
        // (A) the character goes into the cursor's row at the cursor's column
        let col = o.cursor.col as int;
        assert(col < cols);
        assert(fls.len() == ols.len());
        assert(f.buffer.off() == o.buffer.off());
        assert(arow(f) == a);
        assert(fls[a] == f.buffer.row(o.cursor.row as int));
        assert forall|i: int| 0 <= i < ols.len() && i != a implies (#[trigger] fls[i]).v() == ols[i].v() by {
            if i >= o.buffer.off() {
                assert(fls[i] == f.buffer.row(i - o.buffer.off()));
                assert(ols[i] == o.buffer.row(i - o.buffer.off()));
            }
        }
        assert(fls[a].cells@ == ols[a].cells@.update(col, cell));
        lemma_c09_core_same_row(ols, fls, a, l, col, cell);
        lemma_text_push(cl, cur, c);
        assert(forall|j: int| 0 <= j < done.len() ==> #[trigger] lline(fls, j, f.buffer.len()) == done[j]);
        assert(lline(fls, l, a + 1).len() == cl.len());
    } else {
        // (B) deferred wrap, with or without the scroll
        assert(o.cursor.col == cols);
        assert(cur.len() == cl.len());
        assert(cl =~= text_cells(cur) + blank_cells(0, dp()));
        if o.cursor.row < o.rows - 1 {
            assert(!o.print_scrolls());
            assert(o.print_row1() == o.cursor.row + 1);
            assert(f.buffer.off() == o.buffer.off());
            assert(fls.len() == ols.len());
            assert(fls[a] == f.buffer.row(o.cursor.row as int));
            assert(fls[a + 1] == f.buffer.row(o.cursor.row + 1));
            assert(ols[a + 1] == o.buffer.row(o.cursor.row + 1));
            assert(ols[a + 1].v() == blank_line(cols, dp()));
            assert forall|i: int| 0 <= i < a implies (#[trigger] fls[i]).v() == ols[i].v() by {
                if i >= o.buffer.off() {
                    assert(fls[i] == f.buffer.row(i - o.buffer.off()));
                    assert(ols[i] == o.buffer.row(i - o.buffer.off()));
                }
            }
            assert forall|i: int| a + 1 < i < fls.len() implies (#[trigger] fls[i]).v() == blank_line(cols, dp()) by {
                assert(fls[i] == f.buffer.row(i - o.buffer.off()));
                assert(ols[i] == o.buffer.row(i - o.buffer.off()));
            }
        } else {
            assert(o.print_scrolls());
            assert(f.buffer.len() == o.buffer.len() + 1);
            assert(f.buffer.off() == o.buffer.off() + 1);
            assert(fls[a + 1] == f.buffer.row(o.cursor.row as int));
            assert forall|i: int| 0 <= i < a implies (#[trigger] fls[i]).v() == ols[i].v() by {
                if i > o.buffer.off() {
                    assert(fls[i] == f.buffer.row(i - o.buffer.off() - 1));
                    assert(ols[i] == o.buffer.row(i - o.buffer.off()));
                } else if i == o.buffer.off() {
                    assert(ols[i] == o.buffer.row(0));
                }
            }
            if o.rows >= 2 {
                assert(fls[a] == f.buffer.row(o.rows - 2));
                assert(f.buffer.row(o.rows - 2).v() == o.print_scrolled_row(o.rows - 2));
            } else {
                assert(a == o.buffer.off());
            }
        }
        assert(arow(f) == a + 1);
        assert(fls[a].cells@ == ols[a].cells@ && fls[a].wrapped);
        assert(fls[a + 1].cells@ == blank_cells(cols, dp()).update(0, cell) && !fls[a + 1].wrapped);
        lemma_c09_core_next_row(ols, fls, a, l, cell, cols);
        lemma_text_wrap(cl, cur, c, cols);
        assert(forall|j: int| 0 <= j < done.len() ==> #[trigger] lline(fls, j, f.buffer.len()) == done[j]);
        assert((k + 2) * cols == (k + 1) * cols + cols) by (nonlinear_arith);
        assert((k + 1) * cols + 1 == cur.len() + 1);
    }
}

/// [C09] CR moves the cursor to column 0 and touches no cell and no wrap mark
pub proof fn lemma_c09_cr(o: Terminal, f: Terminal, done: Seq<Seq<Cell>>, cur: Seq<char>)
    requires
        c09_inv(o, done, cur, false),
        post_cr(o, f),
    ensures
        c09_inv(f, done, cur, true),
{
}

/// [C09] LF after CR ends the logical line: its cells are frozen as they are, the cursor is on a
/// blank unwrapped row below (scrolled into existence if necessary), nothing above is touched
pub proof fn lemma_c09_lf(o: Terminal, f: Terminal, done: Seq<Seq<Cell>>, cur: Seq<char>)
    requires
        c09_inv(o, done, cur, true),
        post_lf(o, f),
    ensures
        c09_inv(f, done.push(lline(o.buffer.lines@, done.len() as int, arow(o) + 1)), Seq::<char>::empty(), false),
        trimmed(lline(o.buffer.lines@, done.len() as int, arow(o) + 1)) == trimmed(text_cells(cur)),
        cur.len() <= lline(o.buffer.lines@, done.len() as int, arow(o) + 1).len(),
        lline(o.buffer.lines@, done.len() as int, arow(o) + 1) == text_cells(cur) + blank_cells(lline(o.buffer.lines@, done.len() as int, arow(o) + 1).len() - cur.len(), dp()),
{
    let ols = o.buffer.lines@;
    let fls = f.buffer.lines@;
    let a = arow(o);
    let cols = o.cols as int;
    let l = done.len() as int;
    let cl = lline(ols, l, a + 1);
    let done2 = done.push(cl);
    assert(ols[a] == o.buffer.row(o.cursor.row as int));
    if o.cursor.row == o.bottom_margin {
        assert(f.buffer.len() == o.buffer.len() + 1);
        assert(f.buffer.off() == o.buffer.off() + 1);
        assert(fls[a + 1] == f.buffer.row(o.rows - 1));
        assert forall|i: int| 0 <= i <= a implies (#[trigger] fls[i]).v() == ols[i].v() by {
            if i > o.buffer.off() {
                assert(fls[i] == f.buffer.row(i - o.buffer.off() - 1));
                assert(ols[i] == o.buffer.row(i - o.buffer.off()));
            } else if i == o.buffer.off() {
                assert(ols[i] == o.buffer.row(0));
                assert(fls[o.buffer.off() + 0].v() == o.buffer.row_pre_su(o.rows as int, 0));
            }
        }
    } else {
        assert(f.buffer == o.buffer);
        assert(ols[a + 1].v() == blank_line(cols, dp()));
    }
    assert(arow(f) == a + 1);
    lemma_c09_core_lf(ols, fls, a, l, cols);
    assert forall|j: int| 0 <= j < done2.len() implies #[trigger] lline(fls, j, f.buffer.len()) == done2[j] by {
        if j < l {
            assert(lline(fls, j, fls.len() as int) == lline(ols, j, ols.len() as int));
        }
    }
    assert(text_cells(Seq::<char>::empty()) + blank_cells(cols, dp()) =~= blank_cells(cols, dp()));
    assert((0 + 1) * cols == cols) by (nonlinear_arith);
    lemma_trimmed_blanks(text_cells(cur), cl.len() - cur.len());
}

/// [C09] trailing blanks in the default pen are exactly what "up to trailing spaces" ignores
pub proof fn lemma_trimmed_blanks(s: Seq<Cell>, m: int)
    requires
        m >= 0,
    ensures
        trimmed(s + blank_cells(m, dp())) == trimmed(s),
    decreases m,
{
    lemma_default_blank();
    if m > 0 {
        let t = s + blank_cells(m, dp());
        assert(t.last() == Cell(' ', dp()));
        assert(t.drop_last() =~= s + blank_cells(m - 1, dp()));
        lemma_trimmed_blanks(s, m - 1);
        assert(trailing_defaults(t) == 1 + trailing_defaults(t.drop_last()));
        lemma_trailing_defaults(t.drop_last());
        assert(trimmed(t) =~= trimmed(t.drop_last()));
    } else {
        assert(s + blank_cells(0, dp()) =~= s);
    }
}

/// [C09] a blank in the default pen is a "default cell"
pub proof fn lemma_default_blank()
    ensures
        cell_is_default(Cell(' ', dp())),
{
    let p = dp();
    assert(p.attrs == 0);
    assert(forall|m: u8| 0u8 & m == 0) by (bit_vector);
    assert(p.is_default_spec());
}

// ---- start, parser, whole histories --------------------------------------------------------

/// [C09] a freshly built terminal (any size, any limit) satisfies the invariant with no text
pub proof fn lemma_c09_init(t: Terminal, cols: int, rows: int, limit: Option<usize>)
    requires
        t.wf(),
        t.is_fresh(cols, rows, limit),
    ensures
        c09_inv(t, Seq::<Seq<Cell>>::empty(), Seq::<char>::empty(), false),
{
    let ls = t.buffer.lines@;
    assert(arow(t) == 0);
    assert(lline(ls, 0, 1) == lline(ls, 0, 0) + ls[0].cells@);
    assert(lline(ls, 0, 1) =~= text_cells(Seq::<char>::empty()) + blank_cells(cols, dp()));
    assert((0 + 1) * cols == cols) by (nonlinear_arith);
    assert(0 * cols == 0) by (nonlinear_arith);
}

/// a character of the C09 input class: printable (not a C0 / DEL / C1 control)
pub open spec fn c09_printable(c: char) -> bool {
    (0x20 <= c as u32 && c as u32 <= 0x7e) || c as u32 >= 0xa0
}

/// [C09] in the ground state the parser turns a printable character into Print(c), CR into Cr, LF
/// into Lf, and stays in the ground state: the three functions of the lemmas above are exactly
/// what `Vt::feed` executes for this input class
pub proof fn lemma_c09_parser(p: Parser, q: Parser, c: char, r: Option<Function>)
    requires
        p.state == State::Ground,
        post_feed(p, q, c, r),
        c09_printable(c) || c as u32 == 0x0d || c as u32 == 0x0a,
    ensures
        q.state == State::Ground,
        c09_printable(c) ==> r == Some(Function::Print(c)),
        c as u32 == 0x0d ==> r == Some(Function::Cr),
        c as u32 == 0x0a ==> r == Some(Function::Lf),
{
}

/// one event of a C09 history on the abstract side
pub enum C09Ev {
    Ch(char),
    Cr,
    Lf,
}

/// abstract state: finished lines (as text and as frozen cells), current line, CR seen
pub struct C09St {
    pub text: Seq<Seq<char>>,
    pub cells: Seq<Seq<Cell>>,
    pub cur: Seq<char>,
    pub after_cr: bool,
}

/// the terminal step `o -> f` executes event `e` and the abstract state moves accordingly; the
/// abstract move does not mention the terminal's size at all
pub open spec fn c09_step(o: Terminal, f: Terminal, e: C09Ev, s: C09St, s2: C09St) -> bool {
    match e {
        C09Ev::Ch(c) => !s.after_cr && exec_post(o, f, Function::Print(c)) && s2 == (C09St { cur: s.cur.push(c), ..s }),
        C09Ev::Cr => !s.after_cr && exec_post(o, f, Function::Cr) && s2 == (C09St { after_cr: true, ..s }),
        C09Ev::Lf => s.after_cr && exec_post(o, f, Function::Lf) && s2 == (C09St {
            text: s.text.push(s.cur),
            cells: s.cells.push(lline(o.buffer.lines@, s.cells.len() as int, arow(o) + 1)),
            cur: Seq::<char>::empty(),
            after_cr: false,
        }),
    }
}

/// what holds at every point of a C09 history
pub open spec fn c09_holds(t: Terminal, s: C09St) -> bool {
    &&& c09_inv(t, s.cells, s.cur, s.after_cr)
    &&& s.text.len() == s.cells.len()
    &&& forall|j: int| 0 <= j < s.text.len() ==> s.text[j].len() <= (#[trigger] s.cells[j]).len() && s.cells[j] == text_cells(s.text[j]) + blank_cells(s.cells[j].len() - s.text[j].len(), dp())
}

/// [C09] THE TEXT THEOREM.  Any history of printable characters and CR LF pairs, on a terminal of
/// any width and height, from any state satisfying the invariant (e.g. a fresh terminal): at every
/// point the buffer's logical lines are, in order, the finished input lines (up to trailing
/// blanks) followed by the current one, whatever scrolled into the scrollback on the way.
pub proof fn lemma_c09_session(ts: Seq<Terminal>, ss: Seq<C09St>, es: Seq<C09Ev>, n: int, k: int)
    requires
        0 <= k <= n,
        ts.len() == n + 1,
        ss.len() == n + 1,
        es.len() == n,
        c09_holds(ts[0], ss[0]),
        forall|i: int| 0 <= i < n ==> c09_step(#[trigger] ts[i], ts[i + 1], es[i], ss[i], ss[i + 1]),
    ensures
        c09_holds(ts[k], ss[k]),
    decreases k,
{
    if k > 0 {
        lemma_c09_session(ts, ss, es, n, k - 1);
        let i = k - 1;
        let (o, f, s, s2) = (ts[i], ts[i + 1], ss[i], ss[i + 1]);
        assert(c09_step(ts[i], ts[i + 1], es[i], ss[i], ss[i + 1]));
        match es[i] {
            C09Ev::Ch(c) => {
                lemma_c09_print(o, f, s.cells, s.cur, c);
            },
            C09Ev::Cr => {
                lemma_c09_cr(o, f, s.cells, s.cur);
            },
            C09Ev::Lf => {
                lemma_c09_lf(o, f, s.cells, s.cur);
                assert forall|j: int| 0 <= j < s2.text.len() implies s2.text[j].len() <= (#[trigger] s2.cells[j]).len() && s2.cells[j] == text_cells(s2.text[j]) + blank_cells(s2.cells[j].len() - s2.text[j].len(), dp()) by {
                    if j < s.text.len() {
                        assert(s2.cells[j] == s.cells[j] && s2.text[j] == s.text[j]);
                    }
                }
            },
        }
    }
}

/// [C09] the characters of text cells followed by blanks, with trailing spaces removed, are the text
/// with its trailing spaces removed
pub proof fn lemma_rtrim_text_blanks(t: Seq<char>, m: int)
    requires
        m >= 0,
    ensures
        rtrim(cells_chars(text_cells(t) + blank_cells(m, dp()))) == rtrim(t),
    decreases m,
{
    let x = cells_chars(text_cells(t) + blank_cells(m, dp()));
    if m > 0 {
        assert(x.last() == ' ');
        assert(x.drop_last() =~= cells_chars(text_cells(t) + blank_cells(m - 1, dp())));
        lemma_rtrim_text_blanks(t, m - 1);
    } else {
        assert(x =~= t);
    }
}

/// [C09] below the cursor every row is a logical line of its own
pub proof fn lemma_ends_blank_tail(ls: Seq<Line>, a: int, k: int)
    requires
        0 <= a < k <= ls.len(),
        forall|i: int| a <= i < ls.len() ==> !(#[trigger] ls[i]).wrapped,
    ensures
        ends_before(ls, k) == ends_before(ls, a) + (k - a),
    decreases k,
{
    if k > a + 1 {
        lemma_ends_blank_tail(ls, a, k - 1);
    }
}

/// [C09] THE RESULT.  If `r` is what `Buffer::text` returns on the buffer (its proved postcondition
/// E1, E2) at any point of a C09 history, then `r` is: the finished input lines, each with its
/// trailing spaces removed, then the unfinished line likewise, then one empty string per blank row
/// below the cursor - whatever the width, the height and the amount scrolled off
pub proof fn lemma_c09_text(t: Terminal, s: C09St, r: Seq<Seq<char>>)
    requires
        c09_holds(t, s),
        r.len() == ends_before(t.buffer.lines@, t.buffer.len()),
        forall|j: int| 0 <= j < r.len() ==> #[trigger] r[j] == rtrim(cells_chars(lline(t.buffer.lines@, j, t.buffer.len()))),
    ensures
        r.len() == s.text.len() + (t.buffer.len() - arow(t)),
        forall|j: int| 0 <= j < s.text.len() ==> #[trigger] r[j] == rtrim(s.text[j]),
        r[s.text.len() as int] == rtrim(s.cur),
        forall|j: int| s.text.len() < j < r.len() ==> #[trigger] r[j] == Seq::<char>::empty(),
{
    let ls = t.buffer.lines@;
    let n = t.buffer.len();
    let a = arow(t);
    let l = s.cells.len() as int;
    let cols = t.cols as int;
    let cl = lline(ls, l, a + 1);
    assert forall|i: int| a <= i < ls.len() implies !(#[trigger] ls[i]).wrapped by {
        if i > a { assert(ls[i].v() == blank_line(cols, dp())); }
    }
    lemma_ends_blank_tail(ls, a, n);
    assert(ends_before(ls, a + 1) == l + 1);
    lemma_lline_done(ls, l, a + 1, n);
    lemma_rtrim_text_blanks(s.cur, cl.len() - s.cur.len());
    assert forall|j: int| 0 <= j < s.text.len() implies #[trigger] r[j] == rtrim(s.text[j]) by {
        assert(lline(ls, j, n) == s.cells[j]);
        lemma_rtrim_text_blanks(s.text[j], s.cells[j].len() - s.text[j].len());
    }
    assert forall|j: int| s.text.len() < j < r.len() implies #[trigger] r[j] == Seq::<char>::empty() by {
        // logical line j is the single blank row a + (j - l)
        let i = a + (j - l);
        lemma_ends_blank_tail(ls, a, i);
        lemma_ends_blank_tail(ls, a, i + 1);
        lemma_lline_empty(ls, j, i);
        lemma_lline_done(ls, j, i + 1, n);
        assert(lline(ls, j, i + 1) == lline(ls, j, i) + ls[i].cells@);
        assert(ls[i].v() == blank_line(cols, dp()));
        assert(lline(ls, j, n) =~= text_cells(Seq::<char>::empty()) + blank_cells(cols, dp()));
        lemma_rtrim_text_blanks(Seq::<char>::empty(), cols);
    }
}

/// [C09] the text read back does not depend on the width: two terminals of any two sizes fed the
/// same events go through the same abstract states (finished lines and current line as text)
pub proof fn lemma_c09_width_independent(ts1: Seq<Terminal>, ss1: Seq<C09St>, ts2: Seq<Terminal>, ss2: Seq<C09St>, es: Seq<C09Ev>, n: int, k: int)
    requires
        0 <= k <= n,
        ts1.len() == n + 1, ss1.len() == n + 1, ts2.len() == n + 1, ss2.len() == n + 1, es.len() == n,
        ss1[0].text == ss2[0].text && ss1[0].cur == ss2[0].cur && ss1[0].after_cr == ss2[0].after_cr,
        forall|i: int| 0 <= i < n ==> c09_step(#[trigger] ts1[i], ts1[i + 1], es[i], ss1[i], ss1[i + 1]),
        forall|i: int| 0 <= i < n ==> c09_step(#[trigger] ts2[i], ts2[i + 1], es[i], ss2[i], ss2[i + 1]),
    ensures
        ss1[k].text == ss2[k].text && ss1[k].cur == ss2[k].cur && ss1[k].after_cr == ss2[k].after_cr,
    decreases k,
{
    if k > 0 {
        lemma_c09_width_independent(ts1, ss1, ts2, ss2, es, n, k - 1);
        let i = k - 1;
        assert(c09_step(ts1[i], ts1[i + 1], es[i], ss1[i], ss1[i + 1]));
        assert(c09_step(ts2[i], ts2[i + 1], es[i], ss2[i], ss2[i + 1]));
    }
}

// ---- TextUnwrapper over lines() ---------------------------------------------------------------

/// the pending text of a TextUnwrapper after rows 0..k were pushed (`TextUnwrapper::push/E1,E2`)
pub open spec fn tu_acc(ls: Seq<Line>, k: int) -> Seq<char>
    decreases k,
{
    if k <= 0 { Seq::<char>::empty() } else if ls[k - 1].wrapped { tu_acc(ls, k - 1) + cells_chars(ls[k - 1].cells@) } else { Seq::<char>::empty() }
}

/// the strings it has returned so far
pub open spec fn tu_out(ls: Seq<Line>, k: int) -> Seq<Seq<char>>
    decreases k,
{
    if k <= 0 { Seq::<Seq<char>>::empty() } else if ls[k - 1].wrapped { tu_out(ls, k - 1) } else { tu_out(ls, k - 1).push(tu_acc(ls, k - 1) + rtrim(cells_chars(ls[k - 1].cells@))) }
}

/// [C09] trimming the last row only is trimming the whole line, as far as trailing spaces go
pub proof fn lemma_rtrim_append(a: Seq<char>, b: Seq<char>)
    ensures
        rtrim(a + rtrim(b)) == rtrim(a + b),
    decreases b.len(),
{
    if b.len() > 0 && b.last() == ' ' {
        lemma_rtrim_append(a, b.drop_last());
        assert((a + b).drop_last() =~= a + b.drop_last());
        assert((a + b).last() == ' ');
    }
}

/// [C09] Unwrapping lines() with TextUnwrapper: one string per finished logical line, in order,
/// equal to that logical line up to trailing spaces - the same lines `text()` returns
pub proof fn lemma_c09_unwrapper(ls: Seq<Line>, k: int)
    requires
        0 <= k <= ls.len(),
    ensures
        tu_out(ls, k).len() == ends_before(ls, k),
        tu_acc(ls, k) == cells_chars(lline(ls, ends_before(ls, k), k)),
        forall|j: int| 0 <= j < ends_before(ls, k) ==> rtrim(#[trigger] tu_out(ls, k)[j]) == rtrim(cells_chars(lline(ls, j, k))),
    decreases k,
{
    if k > 0 {
        lemma_c09_unwrapper(ls, k - 1);
        let l = ends_before(ls, k - 1);
        lemma_cells_chars_add(lline(ls, l, k - 1), ls[k - 1].cells@);
        if ls[k - 1].wrapped {
            assert forall|j: int| 0 <= j < ends_before(ls, k) implies rtrim(#[trigger] tu_out(ls, k)[j]) == rtrim(cells_chars(lline(ls, j, k))) by {
                if k - 1 > 0 { lemma_ends_mono(ls, k - 2, k - 1); }
                assert(lline(ls, j, k) == lline(ls, j, k - 1) + Seq::<Cell>::empty());
                assert(lline(ls, j, k) =~= lline(ls, j, k - 1));
            }
        } else {
            lemma_lline_empty(ls, l + 1, k);
            lemma_rtrim_append(tu_acc(ls, k - 1), cells_chars(ls[k - 1].cells@));
            assert(cells_chars(Seq::<Cell>::empty()) =~= Seq::<char>::empty());
            assert forall|j: int| 0 <= j < ends_before(ls, k) implies rtrim(#[trigger] tu_out(ls, k)[j]) == rtrim(cells_chars(lline(ls, j, k))) by {
                if j < l {
                    assert(lline(ls, j, k) == lline(ls, j, k - 1) + Seq::<Cell>::empty());
                    assert(lline(ls, j, k) =~= lline(ls, j, k - 1));
                    assert(tu_out(ls, k)[j] == tu_out(ls, k - 1)[j]);
                } else {
                    assert(tu_out(ls, k)[j] == tu_acc(ls, k - 1) + rtrim(cells_chars(ls[k - 1].cells@)));
                }
            }
        }
    }
}

} // verus!
