// Lemmas over the contracts (pure Verus, no executable code): each listed property that
// quantifies over histories is reduced here to per-step facts that follow from the
// postconditions proved on the real functions.
#![allow(unused_imports)]
use vstd::prelude::*;
use crate::parser::*;
use crate::terminal::*;
use crate::buffer::*;
use crate::line::*;
use crate::pen::*;

verus! {

// ---- C03: a 7-bit `ESC Fe` acts exactly like its 8-bit C1 counterpart ----------------------

/// [C03] for every Fe in 0x40..=0x5f, from the Escape state (entered with cleared parameters,
/// no intermediate): same next state as the C1 control Fe+0x40 from any state, and the same
/// function (or the same absence of one)
pub proof fn lemma_c03_esc_fe_equals_c1(fe: char, any: State)
    requires
        0x40 <= fe as u32 <= 0x5f,
    ensures
        ({
            let c1 = ((fe as u32 + 0x40) as u8) as char;
            let t7 = williams(State::Escape, fe);
            let t8 = williams(any, c1);
            &&& t7.next == t8.next
            &&& (t7.act is EscDispatch ==> esc_table(None, fe) == (if t8.act is Execute { c0c1_table(c1) } else { None::<Function> }))
            &&& (t7.act is Clear <==> t8.act is Clear)
            &&& (!(t7.act is EscDispatch) && !(t7.act is Clear) ==> t7.act is Ignore && t8.act is Ignore)
        }),
{
}

// ---- C19: ESC c from anywhere ---------------------------------------------------------------

/// [C19] from every parser state ESC leads to Escape with cleared parameters, and `c` then
/// dispatches RIS and returns to ground
pub proof fn lemma_c19_esc_c(s: State)
    ensures
        williams(s, '\u{1b}').next == State::Escape,
        williams(s, '\u{1b}').act is Clear,
        williams(State::Escape, 'c').next == State::Ground,
        williams(State::Escape, 'c').act is EscDispatch,
        esc_table(None, 'c') == Some(Function::Ris),
{
}

// ---- C20: control strings and unimplemented sequences are inert ------------------------------

pub open spec fn is_string_state(s: State) -> bool {
    s is OscString || s is DcsPassthrough || s is DcsIgnore || s is SosPmApcString
}

/// payload characters: printable ASCII, non-ASCII text >= U+00A0, C0 controls other than
/// CAN / SUB / ESC (and BEL inside OSC)
pub open spec fn is_payload(s: State, c: char) -> bool {
    let x = c as u32;
    &&& !(0x80 <= x <= 0x9f)
    &&& x != 0x18 && x != 0x1a && x != 0x1b
    &&& !(s is OscString && x == 0x07)
}

/// [C20] every payload character is swallowed: same state, no function
pub proof fn lemma_c20_payload_swallowed(s: State, c: char)
    requires
        is_string_state(s),
        is_payload(s, c),
    ensures
        williams(s, c).next == s,
        williams(s, c).act is Ignore,
{
}

/// [C20] the terminators: 8-bit ST from any state, BEL inside OSC, and 7-bit ST (ESC then `\`)
pub proof fn lemma_c20_terminators(s: State)
    ensures
        williams(s, '\u{9c}').next == State::Ground && williams(s, '\u{9c}').act is Ignore,
        williams(State::OscString, '\u{07}').next == State::Ground && williams(State::OscString, '\u{07}').act is Ignore,
        williams(s, '\u{1b}').next == State::Escape,
        williams(State::Escape, '\\').next == State::Ground && williams(State::Escape, '\\').act is EscDispatch,
        esc_table(None, '\\') == None::<Function>,
{
}

/// [C20] all five string kinds are entered by their 7- and 8-bit introducers
pub proof fn lemma_c20_introducers(s: State)
    ensures
        williams(State::Escape, ']').next == State::OscString && williams(s, '\u{9d}').next == State::OscString,
        williams(State::Escape, 'P').next == State::DcsEntry && williams(s, '\u{90}').next == State::DcsEntry,
        williams(State::Escape, 'X').next == State::SosPmApcString && williams(s, '\u{98}').next == State::SosPmApcString,
        williams(State::Escape, '^').next == State::SosPmApcString && williams(s, '\u{9e}').next == State::SosPmApcString,
        williams(State::Escape, '_').next == State::SosPmApcString && williams(s, '\u{9f}').next == State::SosPmApcString,
{
}

/// [C20] unassigned C0 / C1 controls execute to nothing
pub proof fn lemma_c20_unassigned_controls(c: char)
    requires
        ({ let x = c as u32; x <= 0x1f || (0x80 <= x <= 0x9f) }),
        ({ let x = c as u32; !(0x08 <= x <= 0x0f) && x != 0x84 && x != 0x85 && x != 0x88 && x != 0x8d }),
    ensures
        c0c1_table(c) == None::<Function>,
{
}

/// [C20] CSI with a private marker `<` `=` `>` or with any intermediate other than the DECSTR
/// spelling dispatches to nothing, whatever the final byte
pub proof fn lemma_c20_csi_marker_inert(ps: [Param; PARAMS_LEN], cur: usize, i: char, c: char, r: Option<Function>)
    requires
        csi_matches(r, ps, cur, Some(i), c),
        i != '?',
        !(i == '!' && c == 'p'),
    ensures
        r == None::<Function>,
{
}

// ---- per-step facts over Terminal::execute's postcondition (exec_post) --------------------------

/// [C16] a control function executed while the alternate screen is showing - anything except
/// leaving it (DECRST), a hard reset or a window resize - leaves the primary buffer, its
/// scrollback and its saved cursor context exactly as they were
pub proof fn lemma_c16_step(o: Terminal, f: Terminal, fun: Function)
    requires
        o.wf(),
        o.active_buffer_type == BufferType::Alternate,
        exec_post(o, f, fun),
        !(fun is Decrst) && !(fun is Ris) && !(fun is Xtwinops),
    ensures
        f.active_buffer_type == BufferType::Alternate,
        f.other_buffer == o.other_buffer,
        f.alternate_saved_ctx == o.alternate_saved_ctx,
{
}

/// [C17] the active screen's saved context is touched only by the save spellings, soft / hard
/// reset and the mode functions (which contain the ?1048 / ?1049 spellings and the screen switches)
pub proof fn lemma_c17_step(o: Terminal, f: Terminal, fun: Function)
    requires
        o.wf(),
        exec_post(o, f, fun),
        !(fun is Decsc) && !(fun is Scosc) && !(fun is Decstr) && !(fun is Ris) && !(fun is Decset) && !(fun is Decrst) && !(fun is Xtwinops),
    ensures
        f.saved_ctx == o.saved_ctx,
{
}

/// [C06] only LF/IND/NEL, printing (auto-wrap), REP, SU and DL - and the reset / mode functions -
/// can add to the scrollback; every other control function leaves it line-for-line unchanged
pub proof fn lemma_c06_scrollback_step(o: Terminal, f: Terminal, fun: Function)
    requires
        o.wf(),
        exec_post(o, f, fun),
        !(fun is Lf) && !(fun is Nel) && !(fun is Print) && !(fun is Rep) && !(fun is Su) && !(fun is Dl),
        !(fun is Ris) && !(fun is Decset) && !(fun is Decrst) && !(fun is Xtwinops),
    ensures
        f.buffer.off() == o.buffer.off(),
        forall|i: int| 0 <= i < o.buffer.off() ==> (#[trigger] f.buffer.lines@[i]).v() == o.buffer.lines@[i].v(),
{
}

/// [C15] whatever control function is executed (other than a hard reset / window resize, which
/// flag every row), a row that ends up unflagged was unflagged before and is cell-for-cell unchanged
pub proof fn lemma_c15_step(o: Terminal, f: Terminal, fun: Function)
    requires
        o.wf(),
        exec_post(o, f, fun),
        !(fun is Ris) && !(fun is Xtwinops),
    ensures
        f.dirty_sound(o),
{
    if f.buffer == o.buffer && f.dirty_lines == o.dirty_lines {
        lemma_dirty_sound_same(o, f);
    }
}

/// [C05] none of the cursor movement / addressing commands changes any cell, wrap mark, the
/// scrollback, a mode, the margins (except DECSTBM itself) or a tab stop
pub proof fn lemma_c05_moves_change_no_cell(o: Terminal, f: Terminal, fun: Function)
    requires
        o.wf(),
        exec_post(o, f, fun),
        fun is Cuu || fun is Cud || fun is Cuf || fun is Cub || fun is Cnl || fun is Cpl || fun is Vpr || fun is Bs || fun is Cr
            || fun is Ht || fun is Cht || fun is Cbt || fun is Cup || fun is Cha || fun is Vpa || fun is Decstbm,
    ensures
        f.buffer == o.buffer,
        f.dirty_lines == o.dirty_lines,
        f.pen == o.pen,
        f.tabs == o.tabs,
        f.insert_mode == o.insert_mode && f.origin_mode == o.origin_mode && f.auto_wrap_mode == o.auto_wrap_mode,
{
}

// ---- non-interference: what a control function does to the visible terminal does not depend on
// ---- the changed-line flags, the pending-trim flag or the scrollback above the view ------------

/// two buffers show the same screen: same geometry and identical view rows (cells + wrap marks);
/// the scrollback above the view, the trim flag and the scrollback limit may differ
pub open spec fn view_eq(a: Buffer, b: Buffer) -> bool {
    &&& a.cols == b.cols
    &&& a.rows == b.rows
    &&& forall|r: int| 0 <= r < a.rows ==> (#[trigger] a.row(r)).v() == b.row(r).v()
}

/// [C12,C14] everything a user can observe on the screen, and everything that influences what
/// later input does, is equal; the terminals may differ in dirty flags, trim flags, scrollback
/// content and scrollback limit
pub open spec fn vis_eq(a: Terminal, b: Terminal) -> bool {
    &&& a.cols == b.cols && a.rows == b.rows
    &&& view_eq(a.buffer, b.buffer)
    &&& view_eq(a.other_buffer, b.other_buffer)
    // the inactive buffer is at the terminal's size (no resize happened while the other screen
    // was showing): switching screens then never reflows
    &&& a.other_buffer.cols == a.cols && a.other_buffer.rows == a.rows
    &&& a.active_buffer_type == b.active_buffer_type
    &&& a.cursor == b.cursor
    &&& a.pending_wrap == b.pending_wrap
    &&& a.pen == b.pen
    &&& a.charsets[0] == b.charsets[0] && a.charsets[1] == b.charsets[1] && a.active_charset == b.active_charset
    &&& a.tabs.0@ == b.tabs.0@
    &&& a.insert_mode == b.insert_mode && a.origin_mode == b.origin_mode && a.auto_wrap_mode == b.auto_wrap_mode
    &&& a.new_line_mode == b.new_line_mode && a.cursor_keys_mode == b.cursor_keys_mode
    &&& a.top_margin == b.top_margin && a.bottom_margin == b.bottom_margin
    &&& a.saved_ctx == b.saved_ctx && a.alternate_saved_ctx == b.alternate_saved_ctx
    &&& a.xtwinops == b.xtwinops
}

/// two geometrically well-formed buffers with cell-wise equal views show the same screen
/// [C12,C14] (auxiliary)
pub proof fn lemma_view_eq_cells(a: Buffer, b: Buffer)
    requires
        a.wf_geom(), b.wf_geom(), a.cols == b.cols, a.rows == b.rows,
        forall|r: int, c: int| 0 <= r < a.rows && 0 <= c < a.cols ==> (#[trigger] a.row(r).cells@[c]) == b.row(r).cells@[c],
        forall|r: int| 0 <= r < a.rows ==> (#[trigger] a.row(r)).wrapped == b.row(r).wrapped,
    ensures
        view_eq(a, b),
{
    assert forall|r: int| 0 <= r < a.rows implies (#[trigger] a.row(r)).v() == b.row(r).v() by {
        assert(a.row(r).cells@.len() == b.row(r).cells@.len());
        assert(a.row(r).cells@ =~= b.row(r).cells@);
    }
}

/// [C12,C14] non-interference of Bs: on vis-equal terminals the results are vis-equal
pub proof fn lemma_ni_bs(o1: Terminal, o2: Terminal, f1: Terminal, f2: Terminal, fun: Function)
    requires
        o1.wf(), o2.wf(), vis_eq(o1, o2), fun is Bs,
        exec_post(o1, f1, fun), exec_post(o2, f2, fun),
    ensures
        vis_eq(f1, f2),
{
}

/// [C12,C14] non-interference of Cbt: on vis-equal terminals the results are vis-equal
pub proof fn lemma_ni_cbt(o1: Terminal, o2: Terminal, f1: Terminal, f2: Terminal, fun: Function)
    requires
        o1.wf(), o2.wf(), vis_eq(o1, o2), fun is Cbt,
        exec_post(o1, f1, fun), exec_post(o2, f2, fun),
    ensures
        vis_eq(f1, f2),
{
}

/// [C12,C14] non-interference of Cha: on vis-equal terminals the results are vis-equal
pub proof fn lemma_ni_cha(o1: Terminal, o2: Terminal, f1: Terminal, f2: Terminal, fun: Function)
    requires
        o1.wf(), o2.wf(), vis_eq(o1, o2), fun is Cha,
        exec_post(o1, f1, fun), exec_post(o2, f2, fun),
    ensures
        vis_eq(f1, f2),
{
}

/// [C12,C14] non-interference of Cht: on vis-equal terminals the results are vis-equal
pub proof fn lemma_ni_cht(o1: Terminal, o2: Terminal, f1: Terminal, f2: Terminal, fun: Function)
    requires
        o1.wf(), o2.wf(), vis_eq(o1, o2), fun is Cht,
        exec_post(o1, f1, fun), exec_post(o2, f2, fun),
    ensures
        vis_eq(f1, f2),
{
}

/// [C12,C14] non-interference of Cnl: on vis-equal terminals the results are vis-equal
pub proof fn lemma_ni_cnl(o1: Terminal, o2: Terminal, f1: Terminal, f2: Terminal, fun: Function)
    requires
        o1.wf(), o2.wf(), vis_eq(o1, o2), fun is Cnl,
        exec_post(o1, f1, fun), exec_post(o2, f2, fun),
    ensures
        vis_eq(f1, f2),
{
}

/// [C12,C14] non-interference of Cpl: on vis-equal terminals the results are vis-equal
pub proof fn lemma_ni_cpl(o1: Terminal, o2: Terminal, f1: Terminal, f2: Terminal, fun: Function)
    requires
        o1.wf(), o2.wf(), vis_eq(o1, o2), fun is Cpl,
        exec_post(o1, f1, fun), exec_post(o2, f2, fun),
    ensures
        vis_eq(f1, f2),
{
}

/// [C12,C14] non-interference of Cr: on vis-equal terminals the results are vis-equal
pub proof fn lemma_ni_cr(o1: Terminal, o2: Terminal, f1: Terminal, f2: Terminal, fun: Function)
    requires
        o1.wf(), o2.wf(), vis_eq(o1, o2), fun is Cr,
        exec_post(o1, f1, fun), exec_post(o2, f2, fun),
    ensures
        vis_eq(f1, f2),
{
}

/// [C12,C14] non-interference of Ctc: on vis-equal terminals the results are vis-equal
pub proof fn lemma_ni_ctc(o1: Terminal, o2: Terminal, f1: Terminal, f2: Terminal, fun: Function)
    requires
        o1.wf(), o2.wf(), vis_eq(o1, o2), fun is Ctc,
        exec_post(o1, f1, fun), exec_post(o2, f2, fun),
    ensures
        vis_eq(f1, f2),
{
}

/// [C12,C14] non-interference of Cub: on vis-equal terminals the results are vis-equal
pub proof fn lemma_ni_cub(o1: Terminal, o2: Terminal, f1: Terminal, f2: Terminal, fun: Function)
    requires
        o1.wf(), o2.wf(), vis_eq(o1, o2), fun is Cub,
        exec_post(o1, f1, fun), exec_post(o2, f2, fun),
    ensures
        vis_eq(f1, f2),
{
}

/// [C12,C14] non-interference of Cud: on vis-equal terminals the results are vis-equal
pub proof fn lemma_ni_cud(o1: Terminal, o2: Terminal, f1: Terminal, f2: Terminal, fun: Function)
    requires
        o1.wf(), o2.wf(), vis_eq(o1, o2), fun is Cud,
        exec_post(o1, f1, fun), exec_post(o2, f2, fun),
    ensures
        vis_eq(f1, f2),
{
}

/// [C12,C14] non-interference of Cuf: on vis-equal terminals the results are vis-equal
pub proof fn lemma_ni_cuf(o1: Terminal, o2: Terminal, f1: Terminal, f2: Terminal, fun: Function)
    requires
        o1.wf(), o2.wf(), vis_eq(o1, o2), fun is Cuf,
        exec_post(o1, f1, fun), exec_post(o2, f2, fun),
    ensures
        vis_eq(f1, f2),
{
}

/// [C12,C14] non-interference of Cup: on vis-equal terminals the results are vis-equal
pub proof fn lemma_ni_cup(o1: Terminal, o2: Terminal, f1: Terminal, f2: Terminal, fun: Function)
    requires
        o1.wf(), o2.wf(), vis_eq(o1, o2), fun is Cup,
        exec_post(o1, f1, fun), exec_post(o2, f2, fun),
    ensures
        vis_eq(f1, f2),
{
}

/// [C12,C14] non-interference of Cuu: on vis-equal terminals the results are vis-equal
pub proof fn lemma_ni_cuu(o1: Terminal, o2: Terminal, f1: Terminal, f2: Terminal, fun: Function)
    requires
        o1.wf(), o2.wf(), vis_eq(o1, o2), fun is Cuu,
        exec_post(o1, f1, fun), exec_post(o2, f2, fun),
    ensures
        vis_eq(f1, f2),
{
}

/// [C12,C14] non-interference of Dch: on vis-equal terminals the results are vis-equal
pub proof fn lemma_ni_dch(o1: Terminal, o2: Terminal, f1: Terminal, f2: Terminal, fun: Function)
    requires
        o1.wf(), o2.wf(), vis_eq(o1, o2), fun is Dch,
        exec_post(o1, f1, fun), exec_post(o2, f2, fun),
    ensures
        vis_eq(f1, f2),
{
}

/// [C12,C14] non-interference of Decaln: on vis-equal terminals the results are vis-equal
pub proof fn lemma_ni_decaln(o1: Terminal, o2: Terminal, f1: Terminal, f2: Terminal, fun: Function)
    requires
        o1.wf(), o2.wf(), vis_eq(o1, o2), fun is Decaln,
        exec_post(o1, f1, fun), exec_post(o2, f2, fun),
    ensures
        vis_eq(f1, f2),
{
    assert forall|r: int, c: int| 0 <= r < o1.rows && 0 <= c < o1.cols implies (#[trigger] f1.buffer.row(r).cells@[c]) == f2.buffer.row(r).cells@[c] by {
        assert(o1.buffer.row(r).v() == o2.buffer.row(r).v());
    }
    assert forall|r: int| 0 <= r < o1.rows implies (#[trigger] f1.buffer.row(r)).wrapped == f2.buffer.row(r).wrapped by {
        assert(o1.buffer.row(r).v() == o2.buffer.row(r).v());
    }
    lemma_view_eq_cells(f1.buffer, f2.buffer);
}

/// [C12,C14] non-interference of Decrc: on vis-equal terminals the results are vis-equal
pub proof fn lemma_ni_decrc(o1: Terminal, o2: Terminal, f1: Terminal, f2: Terminal, fun: Function)
    requires
        o1.wf(), o2.wf(), vis_eq(o1, o2), fun is Decrc,
        exec_post(o1, f1, fun), exec_post(o2, f2, fun),
    ensures
        vis_eq(f1, f2),
{
}

/// [C12,C14] non-interference of Decsc: on vis-equal terminals the results are vis-equal
pub proof fn lemma_ni_decsc(o1: Terminal, o2: Terminal, f1: Terminal, f2: Terminal, fun: Function)
    requires
        o1.wf(), o2.wf(), vis_eq(o1, o2), fun is Decsc,
        exec_post(o1, f1, fun), exec_post(o2, f2, fun),
    ensures
        vis_eq(f1, f2),
{
}

/// [C12,C14] non-interference of Decstbm: on vis-equal terminals the results are vis-equal
pub proof fn lemma_ni_decstbm(o1: Terminal, o2: Terminal, f1: Terminal, f2: Terminal, fun: Function)
    requires
        o1.wf(), o2.wf(), vis_eq(o1, o2), fun is Decstbm,
        exec_post(o1, f1, fun), exec_post(o2, f2, fun),
    ensures
        vis_eq(f1, f2),
{
}

/// [C12,C14] non-interference of Decstr: on vis-equal terminals the results are vis-equal
pub proof fn lemma_ni_decstr(o1: Terminal, o2: Terminal, f1: Terminal, f2: Terminal, fun: Function)
    requires
        o1.wf(), o2.wf(), vis_eq(o1, o2), fun is Decstr,
        exec_post(o1, f1, fun), exec_post(o2, f2, fun),
    ensures
        vis_eq(f1, f2),
{
}

/// [C12,C14] non-interference of Dl: on vis-equal terminals the results are vis-equal
pub proof fn lemma_ni_dl(o1: Terminal, o2: Terminal, f1: Terminal, f2: Terminal, fun: Function)
    requires
        o1.wf(), o2.wf(), vis_eq(o1, o2), fun is Dl,
        exec_post(o1, f1, fun), exec_post(o2, f2, fun),
    ensures
        vis_eq(f1, f2),
{
}

/// [C12,C14] non-interference of Ech: on vis-equal terminals the results are vis-equal
pub proof fn lemma_ni_ech(o1: Terminal, o2: Terminal, f1: Terminal, f2: Terminal, fun: Function)
    requires
        o1.wf(), o2.wf(), vis_eq(o1, o2), fun is Ech,
        exec_post(o1, f1, fun), exec_post(o2, f2, fun),
    ensures
        vis_eq(f1, f2),
{
    assert forall|r: int, c: int| 0 <= r < o1.rows && 0 <= c < o1.cols implies (#[trigger] f1.buffer.row(r).cells@[c]) == f2.buffer.row(r).cells@[c] by {
        assert(o1.buffer.row(r).v() == o2.buffer.row(r).v());
    }
    assert forall|r: int| 0 <= r < o1.rows implies (#[trigger] f1.buffer.row(r)).wrapped == f2.buffer.row(r).wrapped by {
        assert(o1.buffer.row(r).v() == o2.buffer.row(r).v());
    }
    lemma_view_eq_cells(f1.buffer, f2.buffer);
}

/// [C12,C14] non-interference of Ed: on vis-equal terminals the results are vis-equal
pub proof fn lemma_ni_ed(o1: Terminal, o2: Terminal, f1: Terminal, f2: Terminal, fun: Function)
    requires
        o1.wf(), o2.wf(), vis_eq(o1, o2), fun is Ed,
        exec_post(o1, f1, fun), exec_post(o2, f2, fun),
    ensures
        vis_eq(f1, f2),
{
    assert forall|r: int, c: int| 0 <= r < o1.rows && 0 <= c < o1.cols implies (#[trigger] f1.buffer.row(r).cells@[c]) == f2.buffer.row(r).cells@[c] by {
        assert(o1.buffer.row(r).v() == o2.buffer.row(r).v());
    }
    assert forall|r: int| 0 <= r < o1.rows implies (#[trigger] f1.buffer.row(r)).wrapped == f2.buffer.row(r).wrapped by {
        assert(o1.buffer.row(r).v() == o2.buffer.row(r).v());
    }
    lemma_view_eq_cells(f1.buffer, f2.buffer);
}

/// [C12,C14] non-interference of El: on vis-equal terminals the results are vis-equal
pub proof fn lemma_ni_el(o1: Terminal, o2: Terminal, f1: Terminal, f2: Terminal, fun: Function)
    requires
        o1.wf(), o2.wf(), vis_eq(o1, o2), fun is El,
        exec_post(o1, f1, fun), exec_post(o2, f2, fun),
    ensures
        vis_eq(f1, f2),
{
    assert forall|r: int, c: int| 0 <= r < o1.rows && 0 <= c < o1.cols implies (#[trigger] f1.buffer.row(r).cells@[c]) == f2.buffer.row(r).cells@[c] by {
        assert(o1.buffer.row(r).v() == o2.buffer.row(r).v());
    }
    assert forall|r: int| 0 <= r < o1.rows implies (#[trigger] f1.buffer.row(r)).wrapped == f2.buffer.row(r).wrapped by {
        assert(o1.buffer.row(r).v() == o2.buffer.row(r).v());
    }
    lemma_view_eq_cells(f1.buffer, f2.buffer);
}

/// [C12,C14] non-interference of G1d4: on vis-equal terminals the results are vis-equal
pub proof fn lemma_ni_g1d4(o1: Terminal, o2: Terminal, f1: Terminal, f2: Terminal, fun: Function)
    requires
        o1.wf(), o2.wf(), vis_eq(o1, o2), fun is G1d4,
        exec_post(o1, f1, fun), exec_post(o2, f2, fun),
    ensures
        vis_eq(f1, f2),
{
}

/// [C12,C14] non-interference of Gzd4: on vis-equal terminals the results are vis-equal
pub proof fn lemma_ni_gzd4(o1: Terminal, o2: Terminal, f1: Terminal, f2: Terminal, fun: Function)
    requires
        o1.wf(), o2.wf(), vis_eq(o1, o2), fun is Gzd4,
        exec_post(o1, f1, fun), exec_post(o2, f2, fun),
    ensures
        vis_eq(f1, f2),
{
}

/// [C12,C14] non-interference of Ht: on vis-equal terminals the results are vis-equal
pub proof fn lemma_ni_ht(o1: Terminal, o2: Terminal, f1: Terminal, f2: Terminal, fun: Function)
    requires
        o1.wf(), o2.wf(), vis_eq(o1, o2), fun is Ht,
        exec_post(o1, f1, fun), exec_post(o2, f2, fun),
    ensures
        vis_eq(f1, f2),
{
}

/// [C12,C14] non-interference of Hts: on vis-equal terminals the results are vis-equal
pub proof fn lemma_ni_hts(o1: Terminal, o2: Terminal, f1: Terminal, f2: Terminal, fun: Function)
    requires
        o1.wf(), o2.wf(), vis_eq(o1, o2), fun is Hts,
        exec_post(o1, f1, fun), exec_post(o2, f2, fun),
    ensures
        vis_eq(f1, f2),
{
}

/// [C12,C14] non-interference of Ich: on vis-equal terminals the results are vis-equal
pub proof fn lemma_ni_ich(o1: Terminal, o2: Terminal, f1: Terminal, f2: Terminal, fun: Function)
    requires
        o1.wf(), o2.wf(), vis_eq(o1, o2), fun is Ich,
        exec_post(o1, f1, fun), exec_post(o2, f2, fun),
    ensures
        vis_eq(f1, f2),
{
}

/// [C12,C14] non-interference of Il: on vis-equal terminals the results are vis-equal
pub proof fn lemma_ni_il(o1: Terminal, o2: Terminal, f1: Terminal, f2: Terminal, fun: Function)
    requires
        o1.wf(), o2.wf(), vis_eq(o1, o2), fun is Il,
        exec_post(o1, f1, fun), exec_post(o2, f2, fun),
    ensures
        vis_eq(f1, f2),
{
}

/// [C12,C14] non-interference of Lf: on vis-equal terminals the results are vis-equal
pub proof fn lemma_ni_lf(o1: Terminal, o2: Terminal, f1: Terminal, f2: Terminal, fun: Function)
    requires
        o1.wf(), o2.wf(), vis_eq(o1, o2), fun is Lf,
        exec_post(o1, f1, fun), exec_post(o2, f2, fun),
    ensures
        vis_eq(f1, f2),
{
}

/// [C12,C14] non-interference of Nel: on vis-equal terminals the results are vis-equal
pub proof fn lemma_ni_nel(o1: Terminal, o2: Terminal, f1: Terminal, f2: Terminal, fun: Function)
    requires
        o1.wf(), o2.wf(), vis_eq(o1, o2), fun is Nel,
        exec_post(o1, f1, fun), exec_post(o2, f2, fun),
    ensures
        vis_eq(f1, f2),
{
}

/// [C12,C14] non-interference of Print: on vis-equal terminals the results are vis-equal
pub proof fn lemma_ni_print(o1: Terminal, o2: Terminal, f1: Terminal, f2: Terminal, fun: Function)
    requires
        o1.wf(), o2.wf(), vis_eq(o1, o2), fun is Print,
        exec_post(o1, f1, fun), exec_post(o2, f2, fun),
    ensures
        vis_eq(f1, f2),
{
}

/// a chain of `n` prints of the same character from vis-equal terminals ends vis-equal
/// [C12,C14] (auxiliary)
pub proof fn lemma_ni_print_chain(tr1: Seq<Terminal>, tr2: Seq<Terminal>, ch: char, n: int, k: int)
    requires
        0 <= k <= n, tr1.len() == n + 1, tr2.len() == n + 1,
        tr1[0].wf(), tr2[0].wf(), vis_eq(tr1[0], tr2[0]),
        forall|i: int| 0 <= i < n ==> post_print(#[trigger] tr1[i], tr1[i + 1], ch),
        forall|i: int| 0 <= i < n ==> post_print(#[trigger] tr2[i], tr2[i + 1], ch),
    ensures
        vis_eq(tr1[k], tr2[k]), tr1[k].wf(), tr2[k].wf(),
    decreases k,
{
    if k > 0 {
        lemma_ni_print_chain(tr1, tr2, ch, n, k - 1);
        assert(post_print(tr1[k - 1], tr1[k - 1 + 1], ch));
        assert(post_print(tr2[k - 1], tr2[k - 1 + 1], ch));
        lemma_ni_print(tr1[k - 1], tr2[k - 1], tr1[k], tr2[k], Function::Print(ch));
    }
}

/// [C12,C14] non-interference of Rep: on vis-equal terminals the results are vis-equal
pub proof fn lemma_ni_rep(o1: Terminal, o2: Terminal, f1: Terminal, f2: Terminal, fun: Function)
    requires
        o1.wf(), o2.wf(), vis_eq(o1, o2), fun is Rep,
        exec_post(o1, f1, fun), exec_post(o2, f2, fun),
    ensures
        vis_eq(f1, f2),
{
    let n = fun->Rep_0;
    if o1.cursor.col > 0 {
        let k = param_or(n, 1);
        assert(o1.buffer.row(o1.cursor.row as int).v() == o2.buffer.row(o2.cursor.row as int).v());
        let ch = o1.buffer.row(o1.cursor.row as int).cells@[o1.cursor.col - 1].0;
        let tr1 = choose|tr: Seq<Terminal>| #[trigger] tr.len() == k + 1 && tr[0] == o1 && tr[k] == f1 && (forall|i: int| 0 <= i < k ==> post_print(#[trigger] tr[i], tr[i + 1], ch));
        let tr2 = choose|tr: Seq<Terminal>| #[trigger] tr.len() == k + 1 && tr[0] == o2 && tr[k] == f2 && (forall|i: int| 0 <= i < k ==> post_print(#[trigger] tr[i], tr[i + 1], ch));
        lemma_ni_print_chain(tr1, tr2, ch, k, k);
    }
}


/// [C12,C14] non-interference of Ri: on vis-equal terminals the results are vis-equal
pub proof fn lemma_ni_ri(o1: Terminal, o2: Terminal, f1: Terminal, f2: Terminal, fun: Function)
    requires
        o1.wf(), o2.wf(), vis_eq(o1, o2), fun is Ri,
        exec_post(o1, f1, fun), exec_post(o2, f2, fun),
    ensures
        vis_eq(f1, f2),
{
}

/// [C12,C14] non-interference of Rm: on vis-equal terminals the results are vis-equal
pub proof fn lemma_ni_rm(o1: Terminal, o2: Terminal, f1: Terminal, f2: Terminal, fun: Function)
    requires
        o1.wf(), o2.wf(), vis_eq(o1, o2), fun is Rm,
        exec_post(o1, f1, fun), exec_post(o2, f2, fun),
    ensures
        vis_eq(f1, f2),
{
}

/// [C12,C14] non-interference of Scorc: on vis-equal terminals the results are vis-equal
pub proof fn lemma_ni_scorc(o1: Terminal, o2: Terminal, f1: Terminal, f2: Terminal, fun: Function)
    requires
        o1.wf(), o2.wf(), vis_eq(o1, o2), fun is Scorc,
        exec_post(o1, f1, fun), exec_post(o2, f2, fun),
    ensures
        vis_eq(f1, f2),
{
}

/// [C12,C14] non-interference of Scosc: on vis-equal terminals the results are vis-equal
pub proof fn lemma_ni_scosc(o1: Terminal, o2: Terminal, f1: Terminal, f2: Terminal, fun: Function)
    requires
        o1.wf(), o2.wf(), vis_eq(o1, o2), fun is Scosc,
        exec_post(o1, f1, fun), exec_post(o2, f2, fun),
    ensures
        vis_eq(f1, f2),
{
}

/// [C12,C14] non-interference of Sd: on vis-equal terminals the results are vis-equal
pub proof fn lemma_ni_sd(o1: Terminal, o2: Terminal, f1: Terminal, f2: Terminal, fun: Function)
    requires
        o1.wf(), o2.wf(), vis_eq(o1, o2), fun is Sd,
        exec_post(o1, f1, fun), exec_post(o2, f2, fun),
    ensures
        vis_eq(f1, f2),
{
}

/// [C12,C14] non-interference of Sgr: on vis-equal terminals the results are vis-equal
pub proof fn lemma_ni_sgr(o1: Terminal, o2: Terminal, f1: Terminal, f2: Terminal, fun: Function)
    requires
        o1.wf(), o2.wf(), vis_eq(o1, o2), fun is Sgr,
        exec_post(o1, f1, fun), exec_post(o2, f2, fun),
    ensures
        vis_eq(f1, f2),
{
}

/// [C12,C14] non-interference of Si: on vis-equal terminals the results are vis-equal
pub proof fn lemma_ni_si(o1: Terminal, o2: Terminal, f1: Terminal, f2: Terminal, fun: Function)
    requires
        o1.wf(), o2.wf(), vis_eq(o1, o2), fun is Si,
        exec_post(o1, f1, fun), exec_post(o2, f2, fun),
    ensures
        vis_eq(f1, f2),
{
}

/// [C12,C14] non-interference of Sm: on vis-equal terminals the results are vis-equal
pub proof fn lemma_ni_sm(o1: Terminal, o2: Terminal, f1: Terminal, f2: Terminal, fun: Function)
    requires
        o1.wf(), o2.wf(), vis_eq(o1, o2), fun is Sm,
        exec_post(o1, f1, fun), exec_post(o2, f2, fun),
    ensures
        vis_eq(f1, f2),
{
}

/// [C12,C14] non-interference of So: on vis-equal terminals the results are vis-equal
pub proof fn lemma_ni_so(o1: Terminal, o2: Terminal, f1: Terminal, f2: Terminal, fun: Function)
    requires
        o1.wf(), o2.wf(), vis_eq(o1, o2), fun is So,
        exec_post(o1, f1, fun), exec_post(o2, f2, fun),
    ensures
        vis_eq(f1, f2),
{
}

/// [C12,C14] non-interference of Su: on vis-equal terminals the results are vis-equal
pub proof fn lemma_ni_su(o1: Terminal, o2: Terminal, f1: Terminal, f2: Terminal, fun: Function)
    requires
        o1.wf(), o2.wf(), vis_eq(o1, o2), fun is Su,
        exec_post(o1, f1, fun), exec_post(o2, f2, fun),
    ensures
        vis_eq(f1, f2),
{
}

/// [C12,C14] non-interference of Tbc: on vis-equal terminals the results are vis-equal
pub proof fn lemma_ni_tbc(o1: Terminal, o2: Terminal, f1: Terminal, f2: Terminal, fun: Function)
    requires
        o1.wf(), o2.wf(), vis_eq(o1, o2), fun is Tbc,
        exec_post(o1, f1, fun), exec_post(o2, f2, fun),
    ensures
        vis_eq(f1, f2),
{
}

/// [C12,C14] non-interference of Vpa: on vis-equal terminals the results are vis-equal
pub proof fn lemma_ni_vpa(o1: Terminal, o2: Terminal, f1: Terminal, f2: Terminal, fun: Function)
    requires
        o1.wf(), o2.wf(), vis_eq(o1, o2), fun is Vpa,
        exec_post(o1, f1, fun), exec_post(o2, f2, fun),
    ensures
        vis_eq(f1, f2),
{
}

/// [C12,C14] non-interference of Vpr: on vis-equal terminals the results are vis-equal
pub proof fn lemma_ni_vpr(o1: Terminal, o2: Terminal, f1: Terminal, f2: Terminal, fun: Function)
    requires
        o1.wf(), o2.wf(), vis_eq(o1, o2), fun is Vpr,
        exec_post(o1, f1, fun), exec_post(o2, f2, fun),
    ensures
        vis_eq(f1, f2),
{
}

// ---- mode functions: DECSET / DECRST, composed from the helpers' postconditions -----------------

/// [C12,C14] state in which `reflow()` is a no-op on the screen: the active buffer already has the
/// terminal's size (always true when no resize happened while the other screen was showing)
pub open spec fn sized(t: Terminal) -> bool {
    t.buffer.cols == t.cols && t.buffer.rows == t.rows
}

/// vis_eq without the requirement that the active buffer be at the terminal's size-independent
/// parts: used between a screen switch and the reflow that follows it
/// [C12,C14] (auxiliary)
pub proof fn lemma_ni_save_cursor(o1: Terminal, o2: Terminal, f1: Terminal, f2: Terminal)
    requires o1.wf(), o2.wf(), vis_eq(o1, o2), post_save_cursor(o1, f1), post_save_cursor(o2, f2),
    ensures vis_eq(f1, f2), f1.wf(), f2.wf(),
{
}

/// [C12,C14] (auxiliary)
pub proof fn lemma_ni_restore_cursor(o1: Terminal, o2: Terminal, f1: Terminal, f2: Terminal)
    requires vis_eq(o1, o2), post_restore_cursor(o1, f1), post_restore_cursor(o2, f2),
    ensures vis_eq(f1, f2),
{
}

/// [C12,C14] (auxiliary)
pub proof fn lemma_ni_home(o1: Terminal, o2: Terminal, f1: Terminal, f2: Terminal)
    requires vis_eq(o1, o2), post_move_cursor_home(o1, f1), post_move_cursor_home(o2, f2),
    ensures vis_eq(f1, f2), f1.wf(), f2.wf(),
{
}

/// [C12,C14] (auxiliary)
pub proof fn lemma_ni_switch_alt(o1: Terminal, o2: Terminal, f1: Terminal, f2: Terminal)
    requires o1.wf(), o2.wf(), vis_eq(o1, o2), post_switch_to_alternate_buffer(o1, f1), post_switch_to_alternate_buffer(o2, f2),
    ensures vis_eq(f1, f2), sized(f1), sized(f2),
{
    assert forall|r: int| 0 <= r < f1.buffer.rows implies (#[trigger] f1.buffer.row(r)).v() == f2.buffer.row(r).v() by {
        if o1.active_buffer_type == BufferType::Primary {
            assert(f1.buffer.row(r) == f1.buffer.lines@[r]);
            assert(f2.buffer.row(r) == f2.buffer.lines@[r]);
        } else {
            assert(o1.buffer.row(r).v() == o2.buffer.row(r).v());
        }
    }
}

/// [C12,C14] (auxiliary)
pub proof fn lemma_ni_switch_primary(o1: Terminal, o2: Terminal, f1: Terminal, f2: Terminal)
    requires o1.wf(), o2.wf(), vis_eq(o1, o2), post_switch_to_primary_buffer(o1, f1), post_switch_to_primary_buffer(o2, f2),
    ensures vis_eq(f1, f2), sized(f1), sized(f2),
{
}

/// [C12,C14] (auxiliary)
pub proof fn lemma_ni_reflow_sized(o1: Terminal, o2: Terminal, f1: Terminal, f2: Terminal)
    requires vis_eq(o1, o2), sized(o1), sized(o2), post_reflow(o1, f1), post_reflow(o2, f2),
    ensures vis_eq(f1, f2), f1.wf(), f2.wf(),
{
    assert forall|r: int| 0 <= r < f1.buffer.rows implies (#[trigger] f1.buffer.row(r)).v() == f2.buffer.row(r).v() by {
        assert(f1.buffer.row(r) == o1.buffer.row(r));
        assert(f2.buffer.row(r) == o2.buffer.row(r));
        assert(o1.buffer.row(r).v() == o2.buffer.row(r).v());
    }
}

/// [C12,C14] non-interference of one DECSET mode
pub proof fn lemma_ni_decset_one(o1: Terminal, o2: Terminal, f1: Terminal, f2: Terminal, m: DecMode)
    requires
        o1.wf(), o2.wf(), vis_eq(o1, o2),
        decset_one(o1, f1, m), decset_one(o2, f2, m),
    ensures
        vis_eq(f1, f2), f1.wf(), f2.wf(),
{
    reveal(decset_one);
    match m {
        DecMode::AltScreenBuffer => {
            let a1 = choose|a: Terminal| #[trigger] post_switch_to_alternate_buffer(o1, a) && post_reflow(a, f1);
            let a2 = choose|a: Terminal| #[trigger] post_switch_to_alternate_buffer(o2, a) && post_reflow(a, f2);
            lemma_ni_switch_alt(o1, o2, a1, a2);
            lemma_ni_reflow_sized(a1, a2, f1, f2);
        },
        DecMode::SaveCursorAltScreenBuffer => {
            let (s1, a1) = choose|s: Terminal, a: Terminal| #[trigger] post_save_cursor(o1, s) && #[trigger] post_switch_to_alternate_buffer(s, a) && post_reflow(a, f1);
            let (s2, a2) = choose|s: Terminal, a: Terminal| #[trigger] post_save_cursor(o2, s) && #[trigger] post_switch_to_alternate_buffer(s, a) && post_reflow(a, f2);
            lemma_ni_save_cursor(o1, o2, s1, s2);
            lemma_ni_switch_alt(s1, s2, a1, a2);
            lemma_ni_reflow_sized(a1, a2, f1, f2);
        },
        DecMode::SaveCursor => { lemma_ni_save_cursor(o1, o2, f1, f2); },
        DecMode::Origin => { lemma_ni_home(Terminal { origin_mode: true, ..o1 }, Terminal { origin_mode: true, ..o2 }, f1, f2); },
        DecMode::CursorKeys => {},
        DecMode::AutoWrap => {},
        DecMode::TextCursorEnable => {},
    }
}

/// [C12,C14] non-interference of one DECRST mode
pub proof fn lemma_ni_decrst_one(o1: Terminal, o2: Terminal, f1: Terminal, f2: Terminal, m: DecMode)
    requires
        o1.wf(), o2.wf(), vis_eq(o1, o2),
        decrst_one(o1, f1, m), decrst_one(o2, f2, m),
    ensures
        vis_eq(f1, f2), f1.wf(), f2.wf(),
{
    reveal(decrst_one);
    match m {
        DecMode::AltScreenBuffer => {
            let a1 = choose|a: Terminal| #[trigger] post_switch_to_primary_buffer(o1, a) && post_reflow(a, f1);
            let a2 = choose|a: Terminal| #[trigger] post_switch_to_primary_buffer(o2, a) && post_reflow(a, f2);
            lemma_ni_switch_primary(o1, o2, a1, a2);
            lemma_ni_reflow_sized(a1, a2, f1, f2);
        },
        DecMode::SaveCursorAltScreenBuffer => {
            let (a1, b1) = choose|a: Terminal, b: Terminal| #[trigger] post_switch_to_primary_buffer(o1, a) && #[trigger] post_restore_cursor(a, b) && post_reflow(b, f1);
            let (a2, b2) = choose|a: Terminal, b: Terminal| #[trigger] post_switch_to_primary_buffer(o2, a) && #[trigger] post_restore_cursor(a, b) && post_reflow(b, f2);
            lemma_ni_switch_primary(o1, o2, a1, a2);
            lemma_ni_restore_cursor(a1, a2, b1, b2);
            assert(sized(b1) && sized(b2));
            lemma_ni_reflow_sized(b1, b2, f1, f2);
        },
        DecMode::SaveCursor => { lemma_ni_restore_cursor(o1, o2, f1, f2); },
        DecMode::Origin => { lemma_ni_home(Terminal { origin_mode: false, ..o1 }, Terminal { origin_mode: false, ..o2 }, f1, f2); },
        DecMode::CursorKeys => {},
        DecMode::AutoWrap => {},
        DecMode::TextCursorEnable => {},
    }
}

/// [C12,C14] (auxiliary)
pub proof fn lemma_ni_decset_chain(tr1: Seq<Terminal>, tr2: Seq<Terminal>, modes: Seq<DecMode>, k: int)
    requires
        0 <= k <= modes.len(), tr1.len() == modes.len() + 1, tr2.len() == modes.len() + 1,
        tr1[0].wf(), tr2[0].wf(), vis_eq(tr1[0], tr2[0]),
        forall|i: int| 0 <= i < modes.len() ==> decset_one(#[trigger] tr1[i], tr1[i + 1], modes[i]),
        forall|i: int| 0 <= i < modes.len() ==> decset_one(#[trigger] tr2[i], tr2[i + 1], modes[i]),
    ensures
        vis_eq(tr1[k], tr2[k]), tr1[k].wf(), tr2[k].wf(),
    decreases k,
{
    if k > 0 {
        lemma_ni_decset_chain(tr1, tr2, modes, k - 1);
        assert(decset_one(tr1[k - 1], tr1[k - 1 + 1], modes[k - 1]));
        assert(decset_one(tr2[k - 1], tr2[k - 1 + 1], modes[k - 1]));
        lemma_ni_decset_one(tr1[k - 1], tr2[k - 1], tr1[k], tr2[k], modes[k - 1]);
    }
}

/// [C12,C14] (auxiliary)
pub proof fn lemma_ni_decrst_chain(tr1: Seq<Terminal>, tr2: Seq<Terminal>, modes: Seq<DecMode>, k: int)
    requires
        0 <= k <= modes.len(), tr1.len() == modes.len() + 1, tr2.len() == modes.len() + 1,
        tr1[0].wf(), tr2[0].wf(), vis_eq(tr1[0], tr2[0]),
        forall|i: int| 0 <= i < modes.len() ==> decrst_one(#[trigger] tr1[i], tr1[i + 1], modes[i]),
        forall|i: int| 0 <= i < modes.len() ==> decrst_one(#[trigger] tr2[i], tr2[i + 1], modes[i]),
    ensures
        vis_eq(tr1[k], tr2[k]), tr1[k].wf(), tr2[k].wf(),
    decreases k,
{
    if k > 0 {
        lemma_ni_decrst_chain(tr1, tr2, modes, k - 1);
        assert(decrst_one(tr1[k - 1], tr1[k - 1 + 1], modes[k - 1]));
        assert(decrst_one(tr2[k - 1], tr2[k - 1 + 1], modes[k - 1]));
        lemma_ni_decrst_one(tr1[k - 1], tr2[k - 1], tr1[k], tr2[k], modes[k - 1]);
    }
}

/// [C12,C14] non-interference of Decset
pub proof fn lemma_ni_decset(o1: Terminal, o2: Terminal, f1: Terminal, f2: Terminal, fun: Function)
    requires
        o1.wf(), o2.wf(), vis_eq(o1, o2), fun is Decset,
        exec_post(o1, f1, fun), exec_post(o2, f2, fun),
    ensures
        vis_eq(f1, f2),
{
    let modes = fun->Decset_0;
    let n = modes@.len() as int;
    let tr1 = choose|tr: Seq<Terminal>| #[trigger] tr.len() == modes@.len() + 1 && tr[0] == o1 && tr[modes@.len() as int] == f1 && (forall|i: int| 0 <= i < modes@.len() ==> decset_one(#[trigger] tr[i], tr[i + 1], modes@[i]));
    let tr2 = choose|tr: Seq<Terminal>| #[trigger] tr.len() == modes@.len() + 1 && tr[0] == o2 && tr[modes@.len() as int] == f2 && (forall|i: int| 0 <= i < modes@.len() ==> decset_one(#[trigger] tr[i], tr[i + 1], modes@[i]));
    lemma_ni_decset_chain(tr1, tr2, modes@, n);
}

/// [C12,C14] non-interference of Decrst
pub proof fn lemma_ni_decrst(o1: Terminal, o2: Terminal, f1: Terminal, f2: Terminal, fun: Function)
    requires
        o1.wf(), o2.wf(), vis_eq(o1, o2), fun is Decrst,
        exec_post(o1, f1, fun), exec_post(o2, f2, fun),
    ensures
        vis_eq(f1, f2),
{
    let modes = fun->Decrst_0;
    let n = modes@.len() as int;
    let tr1 = choose|tr: Seq<Terminal>| #[trigger] tr.len() == modes@.len() + 1 && tr[0] == o1 && tr[modes@.len() as int] == f1 && (forall|i: int| 0 <= i < modes@.len() ==> decrst_one(#[trigger] tr[i], tr[i + 1], modes@[i]));
    let tr2 = choose|tr: Seq<Terminal>| #[trigger] tr.len() == modes@.len() + 1 && tr[0] == o2 && tr[modes@.len() as int] == f2 && (forall|i: int| 0 <= i < modes@.len() ==> decrst_one(#[trigger] tr[i], tr[i + 1], modes@[i]));
    lemma_ni_decrst_chain(tr1, tr2, modes@, n);
}

/// [C12] non-interference of Ris: both results are the power-on state of the same geometry
pub proof fn lemma_ni_ris(o1: Terminal, o2: Terminal, f1: Terminal, f2: Terminal, fun: Function)
    requires
        o1.wf(), o2.wf(), vis_eq(o1, o2), fun is Ris,
        exec_post(o1, f1, fun), exec_post(o2, f2, fun),
    ensures
        vis_eq(f1, f2),
{
    assert forall|r: int| 0 <= r < f1.rows implies (#[trigger] f1.buffer.row(r)).v() == f2.buffer.row(r).v() by {
        assert(f1.buffer.row(r) == f1.buffer.lines@[r]);
        assert(f2.buffer.row(r) == f2.buffer.lines@[r]);
    }
    assert forall|r: int| 0 <= r < f1.rows implies (#[trigger] f1.other_buffer.row(r)).v() == f2.other_buffer.row(r).v() by {
        assert(f1.other_buffer.row(r) == f1.other_buffer.lines@[r]);
        assert(f2.other_buffer.row(r) == f2.other_buffer.lines@[r]);
    }
}

/// [C12,C14] NON-INTERFERENCE: executing the same control function on two terminals that agree on
/// everything visible (but may differ in changed-line flags, pending-trim flag, scrollback content
/// above the view and scrollback limit) leaves them agreeing on everything visible.
/// (XTWINOPS is excluded: window resizing is disabled in this build, `xtwinops == false`.)
pub proof fn lemma_ni_step(o1: Terminal, o2: Terminal, f1: Terminal, f2: Terminal, fun: Function)
    requires
        o1.wf(), o2.wf(), vis_eq(o1, o2), !(fun is Xtwinops),
        exec_post(o1, f1, fun), exec_post(o2, f2, fun),
    ensures
        vis_eq(f1, f2),
{
    match fun {
        Function::Bs => lemma_ni_bs(o1, o2, f1, f2, fun), Function::Cbt(_) => lemma_ni_cbt(o1, o2, f1, f2, fun),
        Function::Cha(_) => lemma_ni_cha(o1, o2, f1, f2, fun), Function::Cht(_) => lemma_ni_cht(o1, o2, f1, f2, fun),
        Function::Cnl(_) => lemma_ni_cnl(o1, o2, f1, f2, fun), Function::Cpl(_) => lemma_ni_cpl(o1, o2, f1, f2, fun),
        Function::Cr => lemma_ni_cr(o1, o2, f1, f2, fun), Function::Ctc(_) => lemma_ni_ctc(o1, o2, f1, f2, fun),
        Function::Cub(_) => lemma_ni_cub(o1, o2, f1, f2, fun), Function::Cud(_) => lemma_ni_cud(o1, o2, f1, f2, fun),
        Function::Cuf(_) => lemma_ni_cuf(o1, o2, f1, f2, fun), Function::Cup(_, _) => lemma_ni_cup(o1, o2, f1, f2, fun),
        Function::Cuu(_) => lemma_ni_cuu(o1, o2, f1, f2, fun), Function::Dch(_) => lemma_ni_dch(o1, o2, f1, f2, fun),
        Function::Decaln => lemma_ni_decaln(o1, o2, f1, f2, fun), Function::Decrc => lemma_ni_decrc(o1, o2, f1, f2, fun),
        Function::Decrst(_) => lemma_ni_decrst(o1, o2, f1, f2, fun), Function::Decsc => lemma_ni_decsc(o1, o2, f1, f2, fun),
        Function::Decset(_) => lemma_ni_decset(o1, o2, f1, f2, fun), Function::Decstbm(_, _) => lemma_ni_decstbm(o1, o2, f1, f2, fun),
        Function::Decstr => lemma_ni_decstr(o1, o2, f1, f2, fun), Function::Dl(_) => lemma_ni_dl(o1, o2, f1, f2, fun),
        Function::Ech(_) => lemma_ni_ech(o1, o2, f1, f2, fun), Function::Ed(_) => lemma_ni_ed(o1, o2, f1, f2, fun),
        Function::El(_) => lemma_ni_el(o1, o2, f1, f2, fun), Function::G1d4(_) => lemma_ni_g1d4(o1, o2, f1, f2, fun),
        Function::Gzd4(_) => lemma_ni_gzd4(o1, o2, f1, f2, fun), Function::Ht => lemma_ni_ht(o1, o2, f1, f2, fun),
        Function::Hts => lemma_ni_hts(o1, o2, f1, f2, fun), Function::Ich(_) => lemma_ni_ich(o1, o2, f1, f2, fun),
        Function::Il(_) => lemma_ni_il(o1, o2, f1, f2, fun), Function::Lf => lemma_ni_lf(o1, o2, f1, f2, fun),
        Function::Nel => lemma_ni_nel(o1, o2, f1, f2, fun), Function::Print(_) => lemma_ni_print(o1, o2, f1, f2, fun),
        Function::Rep(_) => lemma_ni_rep(o1, o2, f1, f2, fun), Function::Ri => lemma_ni_ri(o1, o2, f1, f2, fun),
        Function::Ris => lemma_ni_ris(o1, o2, f1, f2, fun), Function::Rm(_) => lemma_ni_rm(o1, o2, f1, f2, fun),
        Function::Scorc => lemma_ni_scorc(o1, o2, f1, f2, fun), Function::Scosc => lemma_ni_scosc(o1, o2, f1, f2, fun),
        Function::Sd(_) => lemma_ni_sd(o1, o2, f1, f2, fun), Function::Sgr(_) => lemma_ni_sgr(o1, o2, f1, f2, fun),
        Function::Si => lemma_ni_si(o1, o2, f1, f2, fun), Function::Sm(_) => lemma_ni_sm(o1, o2, f1, f2, fun),
        Function::So => lemma_ni_so(o1, o2, f1, f2, fun), Function::Su(_) => lemma_ni_su(o1, o2, f1, f2, fun),
        Function::Tbc(_) => lemma_ni_tbc(o1, o2, f1, f2, fun), Function::Vpa(_) => lemma_ni_vpa(o1, o2, f1, f2, fun),
        Function::Vpr(_) => lemma_ni_vpr(o1, o2, f1, f2, fun), Function::Xtwinops(_) => {},
    }
}

/// "silent" steps between control functions: reading and clearing the changed-line flags
/// (`changes()`) and trimming the scrollback (`gc()`) leave everything visible untouched
pub open spec fn silent(a: Terminal, b: Terminal) -> bool {
    a.wf() ==> b.wf() && vis_eq(a, b)
}

/// [C12,C15] `changes()` is silent
pub proof fn lemma_changes_silent(o: Terminal, f: Terminal, r: Vec<usize>)
    requires
        o.wf(),
        o.other_buffer.cols == o.cols && o.other_buffer.rows == o.rows,
        post_changes(o, f, r),
    ensures
        silent(o, f),
{
}

/// [C12,C14] (auxiliary)
pub proof fn lemma_vis_eq_trans(a: Terminal, b: Terminal, c: Terminal)
    requires
        vis_eq(a, b), vis_eq(b, c),
    ensures
        vis_eq(a, c), vis_eq(b, a),
{
    assert forall|r: int| 0 <= r < a.buffer.rows implies (#[trigger] a.buffer.row(r)).v() == c.buffer.row(r).v() by {
        assert(a.buffer.row(r).v() == b.buffer.row(r).v());
        assert(b.buffer.row(r).v() == c.buffer.row(r).v());
    }
    assert forall|r: int| 0 <= r < a.other_buffer.rows implies (#[trigger] a.other_buffer.row(r)).v() == c.other_buffer.row(r).v() by {
        assert(a.other_buffer.row(r).v() == b.other_buffer.row(r).v());
        assert(b.other_buffer.row(r).v() == c.other_buffer.row(r).v());
    }
    assert forall|r: int| 0 <= r < b.buffer.rows implies (#[trigger] b.buffer.row(r)).v() == a.buffer.row(r).v() by {
        assert(a.buffer.row(r).v() == b.buffer.row(r).v());
    }
    assert forall|r: int| 0 <= r < b.other_buffer.rows implies (#[trigger] b.other_buffer.row(r)).v() == a.other_buffer.row(r).v() by {
        assert(a.other_buffer.row(r).v() == b.other_buffer.row(r).v());
    }
}

/// [C12] THE CHUNKING THEOREM (terminal side).  Two runs execute the same sequence of control
/// functions `funs`; before each function either run may take a silent step (a `changes()` /
/// `gc()` at a chunk boundary - this is all that distinguishes one chunking from another).
/// Starting vis-equal, the runs are vis-equal after every function: same visible rows, cursor,
/// pen, modes, margins, tabs, charsets, saved contexts on both screens.
pub proof fn lemma_c12_chunking(tr1: Seq<Terminal>, tr2: Seq<Terminal>, mid1: Seq<Terminal>, mid2: Seq<Terminal>, funs: Seq<Function>, k: int)
    requires
        0 <= k <= funs.len(),
        tr1.len() == funs.len() + 1, tr2.len() == funs.len() + 1, mid1.len() == funs.len(), mid2.len() == funs.len(),
        tr1[0].wf(), tr2[0].wf(), vis_eq(tr1[0], tr2[0]),
        forall|i: int| 0 <= i < funs.len() ==> !(#[trigger] funs[i] is Xtwinops),
        forall|i: int| 0 <= i < funs.len() ==> silent(#[trigger] tr1[i], mid1[i]) && exec_post(mid1[i], tr1[i + 1], funs[i]),
        forall|i: int| 0 <= i < funs.len() ==> silent(#[trigger] tr2[i], mid2[i]) && exec_post(mid2[i], tr2[i + 1], funs[i]),
    ensures
        vis_eq(tr1[k], tr2[k]), tr1[k].wf(), tr2[k].wf(),
    decreases k,
{
    if k > 0 {
        lemma_c12_chunking(tr1, tr2, mid1, mid2, funs, k - 1);
        let i = k - 1;
        assert(silent(tr1[i], mid1[i]) && exec_post(mid1[i], tr1[i + 1], funs[i]));
        assert(silent(tr2[i], mid2[i]) && exec_post(mid2[i], tr2[i + 1], funs[i]));
        assert(!(funs[i] is Xtwinops));
        lemma_vis_eq_trans(tr1[i], tr2[i], mid2[i]);
        lemma_vis_eq_trans(tr1[i], mid1[i], mid1[i]);
        lemma_vis_eq_trans(mid1[i], tr1[i], mid2[i]);
        lemma_ni_step(mid1[i], mid2[i], tr1[i + 1], tr2[i + 1], funs[i]);
        lemma_exec_post_wf(mid1[i], tr1[i + 1], funs[i]);
        lemma_exec_post_wf(mid2[i], tr2[i + 1], funs[i]);
    }
}

/// every control function's postcondition includes the invariant
/// [C12,C14] (auxiliary)
pub proof fn lemma_exec_post_wf(o: Terminal, f: Terminal, fun: Function)
    requires
        o.wf(), exec_post(o, f, fun),
    ensures
        f.wf(),
{
}

// ---- C14: limited vs unlimited scrollback -------------------------------------------------------

pub open spec fn primary(t: Terminal) -> Buffer {
    if t.active_buffer_type == BufferType::Primary { t.buffer } else { t.other_buffer }
}

pub open spec fn lines_v(b: Buffer) -> Seq<LineV> {
    Seq::new(b.lines@.len(), |i: int| b.lines@[i].v())
}

/// the buffer only grows at the boundary between scrollback and view: everything that was
/// scrollback stays, line for line
pub open spec fn grows(o: Buffer, f: Buffer) -> bool {
    &&& o.off() >= 0
    &&& f.len() >= o.len()
    &&& f.rows == o.rows
    &&& forall|i: int| 0 <= i < o.off() ==> (#[trigger] f.lines@[i]).v() == o.lines@[i].v()
}

/// two runs push the same lines (same number, same content) into their scrollbacks
pub open spec fn push_eq(o1: Buffer, f1: Buffer, o2: Buffer, f2: Buffer) -> bool {
    &&& f1.len() - o1.len() == f2.len() - o2.len()
    &&& forall|j: int| 0 <= j < f1.len() - o1.len() ==> (#[trigger] f1.lines@[o1.off() + j]).v() == f2.lines@[o2.off() + j].v()
}

/// [C14] Bs: the primary buffer's scrollback only grows, and equally in both runs
pub proof fn lemma_grow_bs(o1: Terminal, o2: Terminal, f1: Terminal, f2: Terminal, fun: Function)
    requires
        o1.wf(), o2.wf(), vis_eq(o1, o2), fun is Bs,
        exec_post(o1, f1, fun), exec_post(o2, f2, fun),
    ensures
        grows(primary(o1), primary(f1)), grows(primary(o2), primary(f2)),
        push_eq(primary(o1), primary(f1), primary(o2), primary(f2)),
{
}

/// [C14] Cbt: the primary buffer's scrollback only grows, and equally in both runs
pub proof fn lemma_grow_cbt(o1: Terminal, o2: Terminal, f1: Terminal, f2: Terminal, fun: Function)
    requires
        o1.wf(), o2.wf(), vis_eq(o1, o2), fun is Cbt,
        exec_post(o1, f1, fun), exec_post(o2, f2, fun),
    ensures
        grows(primary(o1), primary(f1)), grows(primary(o2), primary(f2)),
        push_eq(primary(o1), primary(f1), primary(o2), primary(f2)),
{
}

/// [C14] Cha: the primary buffer's scrollback only grows, and equally in both runs
pub proof fn lemma_grow_cha(o1: Terminal, o2: Terminal, f1: Terminal, f2: Terminal, fun: Function)
    requires
        o1.wf(), o2.wf(), vis_eq(o1, o2), fun is Cha,
        exec_post(o1, f1, fun), exec_post(o2, f2, fun),
    ensures
        grows(primary(o1), primary(f1)), grows(primary(o2), primary(f2)),
        push_eq(primary(o1), primary(f1), primary(o2), primary(f2)),
{
}

/// [C14] Cht: the primary buffer's scrollback only grows, and equally in both runs
pub proof fn lemma_grow_cht(o1: Terminal, o2: Terminal, f1: Terminal, f2: Terminal, fun: Function)
    requires
        o1.wf(), o2.wf(), vis_eq(o1, o2), fun is Cht,
        exec_post(o1, f1, fun), exec_post(o2, f2, fun),
    ensures
        grows(primary(o1), primary(f1)), grows(primary(o2), primary(f2)),
        push_eq(primary(o1), primary(f1), primary(o2), primary(f2)),
{
}

/// [C14] Cnl: the primary buffer's scrollback only grows, and equally in both runs
pub proof fn lemma_grow_cnl(o1: Terminal, o2: Terminal, f1: Terminal, f2: Terminal, fun: Function)
    requires
        o1.wf(), o2.wf(), vis_eq(o1, o2), fun is Cnl,
        exec_post(o1, f1, fun), exec_post(o2, f2, fun),
    ensures
        grows(primary(o1), primary(f1)), grows(primary(o2), primary(f2)),
        push_eq(primary(o1), primary(f1), primary(o2), primary(f2)),
{
}

/// [C14] Cpl: the primary buffer's scrollback only grows, and equally in both runs
pub proof fn lemma_grow_cpl(o1: Terminal, o2: Terminal, f1: Terminal, f2: Terminal, fun: Function)
    requires
        o1.wf(), o2.wf(), vis_eq(o1, o2), fun is Cpl,
        exec_post(o1, f1, fun), exec_post(o2, f2, fun),
    ensures
        grows(primary(o1), primary(f1)), grows(primary(o2), primary(f2)),
        push_eq(primary(o1), primary(f1), primary(o2), primary(f2)),
{
}

/// [C14] Cr: the primary buffer's scrollback only grows, and equally in both runs
pub proof fn lemma_grow_cr(o1: Terminal, o2: Terminal, f1: Terminal, f2: Terminal, fun: Function)
    requires
        o1.wf(), o2.wf(), vis_eq(o1, o2), fun is Cr,
        exec_post(o1, f1, fun), exec_post(o2, f2, fun),
    ensures
        grows(primary(o1), primary(f1)), grows(primary(o2), primary(f2)),
        push_eq(primary(o1), primary(f1), primary(o2), primary(f2)),
{
}

/// [C14] Ctc: the primary buffer's scrollback only grows, and equally in both runs
pub proof fn lemma_grow_ctc(o1: Terminal, o2: Terminal, f1: Terminal, f2: Terminal, fun: Function)
    requires
        o1.wf(), o2.wf(), vis_eq(o1, o2), fun is Ctc,
        exec_post(o1, f1, fun), exec_post(o2, f2, fun),
    ensures
        grows(primary(o1), primary(f1)), grows(primary(o2), primary(f2)),
        push_eq(primary(o1), primary(f1), primary(o2), primary(f2)),
{
}

/// [C14] Cub: the primary buffer's scrollback only grows, and equally in both runs
pub proof fn lemma_grow_cub(o1: Terminal, o2: Terminal, f1: Terminal, f2: Terminal, fun: Function)
    requires
        o1.wf(), o2.wf(), vis_eq(o1, o2), fun is Cub,
        exec_post(o1, f1, fun), exec_post(o2, f2, fun),
    ensures
        grows(primary(o1), primary(f1)), grows(primary(o2), primary(f2)),
        push_eq(primary(o1), primary(f1), primary(o2), primary(f2)),
{
}

/// [C14] Cud: the primary buffer's scrollback only grows, and equally in both runs
pub proof fn lemma_grow_cud(o1: Terminal, o2: Terminal, f1: Terminal, f2: Terminal, fun: Function)
    requires
        o1.wf(), o2.wf(), vis_eq(o1, o2), fun is Cud,
        exec_post(o1, f1, fun), exec_post(o2, f2, fun),
    ensures
        grows(primary(o1), primary(f1)), grows(primary(o2), primary(f2)),
        push_eq(primary(o1), primary(f1), primary(o2), primary(f2)),
{
}

/// [C14] Cuf: the primary buffer's scrollback only grows, and equally in both runs
pub proof fn lemma_grow_cuf(o1: Terminal, o2: Terminal, f1: Terminal, f2: Terminal, fun: Function)
    requires
        o1.wf(), o2.wf(), vis_eq(o1, o2), fun is Cuf,
        exec_post(o1, f1, fun), exec_post(o2, f2, fun),
    ensures
        grows(primary(o1), primary(f1)), grows(primary(o2), primary(f2)),
        push_eq(primary(o1), primary(f1), primary(o2), primary(f2)),
{
}

/// [C14] Cup: the primary buffer's scrollback only grows, and equally in both runs
pub proof fn lemma_grow_cup(o1: Terminal, o2: Terminal, f1: Terminal, f2: Terminal, fun: Function)
    requires
        o1.wf(), o2.wf(), vis_eq(o1, o2), fun is Cup,
        exec_post(o1, f1, fun), exec_post(o2, f2, fun),
    ensures
        grows(primary(o1), primary(f1)), grows(primary(o2), primary(f2)),
        push_eq(primary(o1), primary(f1), primary(o2), primary(f2)),
{
}

/// [C14] Cuu: the primary buffer's scrollback only grows, and equally in both runs
pub proof fn lemma_grow_cuu(o1: Terminal, o2: Terminal, f1: Terminal, f2: Terminal, fun: Function)
    requires
        o1.wf(), o2.wf(), vis_eq(o1, o2), fun is Cuu,
        exec_post(o1, f1, fun), exec_post(o2, f2, fun),
    ensures
        grows(primary(o1), primary(f1)), grows(primary(o2), primary(f2)),
        push_eq(primary(o1), primary(f1), primary(o2), primary(f2)),
{
}

/// [C14] Dch: the primary buffer's scrollback only grows, and equally in both runs
pub proof fn lemma_grow_dch(o1: Terminal, o2: Terminal, f1: Terminal, f2: Terminal, fun: Function)
    requires
        o1.wf(), o2.wf(), vis_eq(o1, o2), fun is Dch,
        exec_post(o1, f1, fun), exec_post(o2, f2, fun),
    ensures
        grows(primary(o1), primary(f1)), grows(primary(o2), primary(f2)),
        push_eq(primary(o1), primary(f1), primary(o2), primary(f2)),
{
}

/// [C14] Decaln: the primary buffer's scrollback only grows, and equally in both runs
pub proof fn lemma_grow_decaln(o1: Terminal, o2: Terminal, f1: Terminal, f2: Terminal, fun: Function)
    requires
        o1.wf(), o2.wf(), vis_eq(o1, o2), fun is Decaln,
        exec_post(o1, f1, fun), exec_post(o2, f2, fun),
    ensures
        grows(primary(o1), primary(f1)), grows(primary(o2), primary(f2)),
        push_eq(primary(o1), primary(f1), primary(o2), primary(f2)),
{
}

/// [C14] Decrc: the primary buffer's scrollback only grows, and equally in both runs
pub proof fn lemma_grow_decrc(o1: Terminal, o2: Terminal, f1: Terminal, f2: Terminal, fun: Function)
    requires
        o1.wf(), o2.wf(), vis_eq(o1, o2), fun is Decrc,
        exec_post(o1, f1, fun), exec_post(o2, f2, fun),
    ensures
        grows(primary(o1), primary(f1)), grows(primary(o2), primary(f2)),
        push_eq(primary(o1), primary(f1), primary(o2), primary(f2)),
{
}

/// [C14] Decsc: the primary buffer's scrollback only grows, and equally in both runs
pub proof fn lemma_grow_decsc(o1: Terminal, o2: Terminal, f1: Terminal, f2: Terminal, fun: Function)
    requires
        o1.wf(), o2.wf(), vis_eq(o1, o2), fun is Decsc,
        exec_post(o1, f1, fun), exec_post(o2, f2, fun),
    ensures
        grows(primary(o1), primary(f1)), grows(primary(o2), primary(f2)),
        push_eq(primary(o1), primary(f1), primary(o2), primary(f2)),
{
}

/// [C14] Decstbm: the primary buffer's scrollback only grows, and equally in both runs
pub proof fn lemma_grow_decstbm(o1: Terminal, o2: Terminal, f1: Terminal, f2: Terminal, fun: Function)
    requires
        o1.wf(), o2.wf(), vis_eq(o1, o2), fun is Decstbm,
        exec_post(o1, f1, fun), exec_post(o2, f2, fun),
    ensures
        grows(primary(o1), primary(f1)), grows(primary(o2), primary(f2)),
        push_eq(primary(o1), primary(f1), primary(o2), primary(f2)),
{
}

/// [C14] Decstr: the primary buffer's scrollback only grows, and equally in both runs
pub proof fn lemma_grow_decstr(o1: Terminal, o2: Terminal, f1: Terminal, f2: Terminal, fun: Function)
    requires
        o1.wf(), o2.wf(), vis_eq(o1, o2), fun is Decstr,
        exec_post(o1, f1, fun), exec_post(o2, f2, fun),
    ensures
        grows(primary(o1), primary(f1)), grows(primary(o2), primary(f2)),
        push_eq(primary(o1), primary(f1), primary(o2), primary(f2)),
{
}

/// [C14] Dl: the primary buffer's scrollback only grows, and equally in both runs
pub proof fn lemma_grow_dl(o1: Terminal, o2: Terminal, f1: Terminal, f2: Terminal, fun: Function)
    requires
        o1.wf(), o2.wf(), vis_eq(o1, o2), fun is Dl,
        exec_post(o1, f1, fun), exec_post(o2, f2, fun),
    ensures
        grows(primary(o1), primary(f1)), grows(primary(o2), primary(f2)),
        push_eq(primary(o1), primary(f1), primary(o2), primary(f2)),
{
}

/// [C14] Ech: the primary buffer's scrollback only grows, and equally in both runs
pub proof fn lemma_grow_ech(o1: Terminal, o2: Terminal, f1: Terminal, f2: Terminal, fun: Function)
    requires
        o1.wf(), o2.wf(), vis_eq(o1, o2), fun is Ech,
        exec_post(o1, f1, fun), exec_post(o2, f2, fun),
    ensures
        grows(primary(o1), primary(f1)), grows(primary(o2), primary(f2)),
        push_eq(primary(o1), primary(f1), primary(o2), primary(f2)),
{
}

/// [C14] Ed: the primary buffer's scrollback only grows, and equally in both runs
pub proof fn lemma_grow_ed(o1: Terminal, o2: Terminal, f1: Terminal, f2: Terminal, fun: Function)
    requires
        o1.wf(), o2.wf(), vis_eq(o1, o2), fun is Ed,
        exec_post(o1, f1, fun), exec_post(o2, f2, fun),
    ensures
        grows(primary(o1), primary(f1)), grows(primary(o2), primary(f2)),
        push_eq(primary(o1), primary(f1), primary(o2), primary(f2)),
{
}

/// [C14] El: the primary buffer's scrollback only grows, and equally in both runs
pub proof fn lemma_grow_el(o1: Terminal, o2: Terminal, f1: Terminal, f2: Terminal, fun: Function)
    requires
        o1.wf(), o2.wf(), vis_eq(o1, o2), fun is El,
        exec_post(o1, f1, fun), exec_post(o2, f2, fun),
    ensures
        grows(primary(o1), primary(f1)), grows(primary(o2), primary(f2)),
        push_eq(primary(o1), primary(f1), primary(o2), primary(f2)),
{
}

/// [C14] G1d4: the primary buffer's scrollback only grows, and equally in both runs
pub proof fn lemma_grow_g1d4(o1: Terminal, o2: Terminal, f1: Terminal, f2: Terminal, fun: Function)
    requires
        o1.wf(), o2.wf(), vis_eq(o1, o2), fun is G1d4,
        exec_post(o1, f1, fun), exec_post(o2, f2, fun),
    ensures
        grows(primary(o1), primary(f1)), grows(primary(o2), primary(f2)),
        push_eq(primary(o1), primary(f1), primary(o2), primary(f2)),
{
}

/// [C14] Gzd4: the primary buffer's scrollback only grows, and equally in both runs
pub proof fn lemma_grow_gzd4(o1: Terminal, o2: Terminal, f1: Terminal, f2: Terminal, fun: Function)
    requires
        o1.wf(), o2.wf(), vis_eq(o1, o2), fun is Gzd4,
        exec_post(o1, f1, fun), exec_post(o2, f2, fun),
    ensures
        grows(primary(o1), primary(f1)), grows(primary(o2), primary(f2)),
        push_eq(primary(o1), primary(f1), primary(o2), primary(f2)),
{
}

/// [C14] Ht: the primary buffer's scrollback only grows, and equally in both runs
pub proof fn lemma_grow_ht(o1: Terminal, o2: Terminal, f1: Terminal, f2: Terminal, fun: Function)
    requires
        o1.wf(), o2.wf(), vis_eq(o1, o2), fun is Ht,
        exec_post(o1, f1, fun), exec_post(o2, f2, fun),
    ensures
        grows(primary(o1), primary(f1)), grows(primary(o2), primary(f2)),
        push_eq(primary(o1), primary(f1), primary(o2), primary(f2)),
{
}

/// [C14] Hts: the primary buffer's scrollback only grows, and equally in both runs
pub proof fn lemma_grow_hts(o1: Terminal, o2: Terminal, f1: Terminal, f2: Terminal, fun: Function)
    requires
        o1.wf(), o2.wf(), vis_eq(o1, o2), fun is Hts,
        exec_post(o1, f1, fun), exec_post(o2, f2, fun),
    ensures
        grows(primary(o1), primary(f1)), grows(primary(o2), primary(f2)),
        push_eq(primary(o1), primary(f1), primary(o2), primary(f2)),
{
}

/// [C14] Ich: the primary buffer's scrollback only grows, and equally in both runs
pub proof fn lemma_grow_ich(o1: Terminal, o2: Terminal, f1: Terminal, f2: Terminal, fun: Function)
    requires
        o1.wf(), o2.wf(), vis_eq(o1, o2), fun is Ich,
        exec_post(o1, f1, fun), exec_post(o2, f2, fun),
    ensures
        grows(primary(o1), primary(f1)), grows(primary(o2), primary(f2)),
        push_eq(primary(o1), primary(f1), primary(o2), primary(f2)),
{
}

/// [C14] Il: the primary buffer's scrollback only grows, and equally in both runs
pub proof fn lemma_grow_il(o1: Terminal, o2: Terminal, f1: Terminal, f2: Terminal, fun: Function)
    requires
        o1.wf(), o2.wf(), vis_eq(o1, o2), fun is Il,
        exec_post(o1, f1, fun), exec_post(o2, f2, fun),
    ensures
        grows(primary(o1), primary(f1)), grows(primary(o2), primary(f2)),
        push_eq(primary(o1), primary(f1), primary(o2), primary(f2)),
{
}

/// [C14] Lf: the primary buffer's scrollback only grows, and equally in both runs
pub proof fn lemma_grow_lf(o1: Terminal, o2: Terminal, f1: Terminal, f2: Terminal, fun: Function)
    requires
        o1.wf(), o2.wf(), vis_eq(o1, o2), fun is Lf,
        exec_post(o1, f1, fun), exec_post(o2, f2, fun),
    ensures
        grows(primary(o1), primary(f1)), grows(primary(o2), primary(f2)),
        push_eq(primary(o1), primary(f1), primary(o2), primary(f2)),
{
}

/// [C14] Nel: the primary buffer's scrollback only grows, and equally in both runs
pub proof fn lemma_grow_nel(o1: Terminal, o2: Terminal, f1: Terminal, f2: Terminal, fun: Function)
    requires
        o1.wf(), o2.wf(), vis_eq(o1, o2), fun is Nel,
        exec_post(o1, f1, fun), exec_post(o2, f2, fun),
    ensures
        grows(primary(o1), primary(f1)), grows(primary(o2), primary(f2)),
        push_eq(primary(o1), primary(f1), primary(o2), primary(f2)),
{
}

/// [C14] Print: the primary buffer's scrollback only grows, and equally in both runs
pub proof fn lemma_grow_print(o1: Terminal, o2: Terminal, f1: Terminal, f2: Terminal, fun: Function)
    requires
        o1.wf(), o2.wf(), vis_eq(o1, o2), fun is Print,
        exec_post(o1, f1, fun), exec_post(o2, f2, fun),
    ensures
        grows(primary(o1), primary(f1)), grows(primary(o2), primary(f2)),
        push_eq(primary(o1), primary(f1), primary(o2), primary(f2)),
{
}

/// [C14] Ri: the primary buffer's scrollback only grows, and equally in both runs
pub proof fn lemma_grow_ri(o1: Terminal, o2: Terminal, f1: Terminal, f2: Terminal, fun: Function)
    requires
        o1.wf(), o2.wf(), vis_eq(o1, o2), fun is Ri,
        exec_post(o1, f1, fun), exec_post(o2, f2, fun),
    ensures
        grows(primary(o1), primary(f1)), grows(primary(o2), primary(f2)),
        push_eq(primary(o1), primary(f1), primary(o2), primary(f2)),
{
}

/// [C14] Rm: the primary buffer's scrollback only grows, and equally in both runs
pub proof fn lemma_grow_rm(o1: Terminal, o2: Terminal, f1: Terminal, f2: Terminal, fun: Function)
    requires
        o1.wf(), o2.wf(), vis_eq(o1, o2), fun is Rm,
        exec_post(o1, f1, fun), exec_post(o2, f2, fun),
    ensures
        grows(primary(o1), primary(f1)), grows(primary(o2), primary(f2)),
        push_eq(primary(o1), primary(f1), primary(o2), primary(f2)),
{
}

/// [C14] Scorc: the primary buffer's scrollback only grows, and equally in both runs
pub proof fn lemma_grow_scorc(o1: Terminal, o2: Terminal, f1: Terminal, f2: Terminal, fun: Function)
    requires
        o1.wf(), o2.wf(), vis_eq(o1, o2), fun is Scorc,
        exec_post(o1, f1, fun), exec_post(o2, f2, fun),
    ensures
        grows(primary(o1), primary(f1)), grows(primary(o2), primary(f2)),
        push_eq(primary(o1), primary(f1), primary(o2), primary(f2)),
{
}

/// [C14] Scosc: the primary buffer's scrollback only grows, and equally in both runs
pub proof fn lemma_grow_scosc(o1: Terminal, o2: Terminal, f1: Terminal, f2: Terminal, fun: Function)
    requires
        o1.wf(), o2.wf(), vis_eq(o1, o2), fun is Scosc,
        exec_post(o1, f1, fun), exec_post(o2, f2, fun),
    ensures
        grows(primary(o1), primary(f1)), grows(primary(o2), primary(f2)),
        push_eq(primary(o1), primary(f1), primary(o2), primary(f2)),
{
}

/// [C14] Sd: the primary buffer's scrollback only grows, and equally in both runs
pub proof fn lemma_grow_sd(o1: Terminal, o2: Terminal, f1: Terminal, f2: Terminal, fun: Function)
    requires
        o1.wf(), o2.wf(), vis_eq(o1, o2), fun is Sd,
        exec_post(o1, f1, fun), exec_post(o2, f2, fun),
    ensures
        grows(primary(o1), primary(f1)), grows(primary(o2), primary(f2)),
        push_eq(primary(o1), primary(f1), primary(o2), primary(f2)),
{
}

/// [C14] Sgr: the primary buffer's scrollback only grows, and equally in both runs
pub proof fn lemma_grow_sgr(o1: Terminal, o2: Terminal, f1: Terminal, f2: Terminal, fun: Function)
    requires
        o1.wf(), o2.wf(), vis_eq(o1, o2), fun is Sgr,
        exec_post(o1, f1, fun), exec_post(o2, f2, fun),
    ensures
        grows(primary(o1), primary(f1)), grows(primary(o2), primary(f2)),
        push_eq(primary(o1), primary(f1), primary(o2), primary(f2)),
{
}

/// [C14] Si: the primary buffer's scrollback only grows, and equally in both runs
pub proof fn lemma_grow_si(o1: Terminal, o2: Terminal, f1: Terminal, f2: Terminal, fun: Function)
    requires
        o1.wf(), o2.wf(), vis_eq(o1, o2), fun is Si,
        exec_post(o1, f1, fun), exec_post(o2, f2, fun),
    ensures
        grows(primary(o1), primary(f1)), grows(primary(o2), primary(f2)),
        push_eq(primary(o1), primary(f1), primary(o2), primary(f2)),
{
}

/// [C14] Sm: the primary buffer's scrollback only grows, and equally in both runs
pub proof fn lemma_grow_sm(o1: Terminal, o2: Terminal, f1: Terminal, f2: Terminal, fun: Function)
    requires
        o1.wf(), o2.wf(), vis_eq(o1, o2), fun is Sm,
        exec_post(o1, f1, fun), exec_post(o2, f2, fun),
    ensures
        grows(primary(o1), primary(f1)), grows(primary(o2), primary(f2)),
        push_eq(primary(o1), primary(f1), primary(o2), primary(f2)),
{
}

/// [C14] So: the primary buffer's scrollback only grows, and equally in both runs
pub proof fn lemma_grow_so(o1: Terminal, o2: Terminal, f1: Terminal, f2: Terminal, fun: Function)
    requires
        o1.wf(), o2.wf(), vis_eq(o1, o2), fun is So,
        exec_post(o1, f1, fun), exec_post(o2, f2, fun),
    ensures
        grows(primary(o1), primary(f1)), grows(primary(o2), primary(f2)),
        push_eq(primary(o1), primary(f1), primary(o2), primary(f2)),
{
}

/// [C14] Su: the primary buffer's scrollback only grows, and equally in both runs
pub proof fn lemma_grow_su(o1: Terminal, o2: Terminal, f1: Terminal, f2: Terminal, fun: Function)
    requires
        o1.wf(), o2.wf(), vis_eq(o1, o2), fun is Su,
        exec_post(o1, f1, fun), exec_post(o2, f2, fun),
    ensures
        grows(primary(o1), primary(f1)), grows(primary(o2), primary(f2)),
        push_eq(primary(o1), primary(f1), primary(o2), primary(f2)),
{
}

/// [C14] Tbc: the primary buffer's scrollback only grows, and equally in both runs
pub proof fn lemma_grow_tbc(o1: Terminal, o2: Terminal, f1: Terminal, f2: Terminal, fun: Function)
    requires
        o1.wf(), o2.wf(), vis_eq(o1, o2), fun is Tbc,
        exec_post(o1, f1, fun), exec_post(o2, f2, fun),
    ensures
        grows(primary(o1), primary(f1)), grows(primary(o2), primary(f2)),
        push_eq(primary(o1), primary(f1), primary(o2), primary(f2)),
{
}

/// [C14] Vpa: the primary buffer's scrollback only grows, and equally in both runs
pub proof fn lemma_grow_vpa(o1: Terminal, o2: Terminal, f1: Terminal, f2: Terminal, fun: Function)
    requires
        o1.wf(), o2.wf(), vis_eq(o1, o2), fun is Vpa,
        exec_post(o1, f1, fun), exec_post(o2, f2, fun),
    ensures
        grows(primary(o1), primary(f1)), grows(primary(o2), primary(f2)),
        push_eq(primary(o1), primary(f1), primary(o2), primary(f2)),
{
}

/// [C14] Vpr: the primary buffer's scrollback only grows, and equally in both runs
pub proof fn lemma_grow_vpr(o1: Terminal, o2: Terminal, f1: Terminal, f2: Terminal, fun: Function)
    requires
        o1.wf(), o2.wf(), vis_eq(o1, o2), fun is Vpr,
        exec_post(o1, f1, fun), exec_post(o2, f2, fun),
    ensures
        grows(primary(o1), primary(f1)), grows(primary(o2), primary(f2)),
        push_eq(primary(o1), primary(f1), primary(o2), primary(f2)),
{
}

/// growth composes
/// [C14] (auxiliary)
pub proof fn lemma_grow_trans(a1: Buffer, b1: Buffer, c1: Buffer, a2: Buffer, b2: Buffer, c2: Buffer)
    requires
        grows(a1, b1), grows(b1, c1), grows(a2, b2), grows(b2, c2),
        push_eq(a1, b1, a2, b2), push_eq(b1, c1, b2, c2),
    ensures
        grows(a1, c1), grows(a2, c2), push_eq(a1, c1, a2, c2),
{
    let k = b1.len() - a1.len();
    assert forall|j: int| 0 <= j < c1.len() - a1.len() implies (#[trigger] c1.lines@[a1.off() + j]).v() == c2.lines@[a2.off() + j].v() by {
        if j < k {
            assert(c1.lines@[a1.off() + j].v() == b1.lines@[a1.off() + j].v());
            assert(c2.lines@[a2.off() + j].v() == b2.lines@[a2.off() + j].v());
            assert(b1.lines@[a1.off() + j].v() == b2.lines@[a2.off() + j].v());
        } else {
            assert(c1.lines@[b1.off() + (j - k)].v() == c2.lines@[b2.off() + (j - k)].v());
        }
    }
}

/// a chain of prints: growth facts accumulate
/// [C14] (auxiliary)
pub proof fn lemma_grow_print_chain(tr1: Seq<Terminal>, tr2: Seq<Terminal>, ch: char, n: int, k: int)
    requires
        0 <= k <= n, tr1.len() == n + 1, tr2.len() == n + 1,
        tr1[0].wf(), tr2[0].wf(), vis_eq(tr1[0], tr2[0]),
        forall|i: int| 0 <= i < n ==> post_print(#[trigger] tr1[i], tr1[i + 1], ch),
        forall|i: int| 0 <= i < n ==> post_print(#[trigger] tr2[i], tr2[i + 1], ch),
    ensures
        grows(primary(tr1[0]), primary(tr1[k])), grows(primary(tr2[0]), primary(tr2[k])),
        push_eq(primary(tr1[0]), primary(tr1[k]), primary(tr2[0]), primary(tr2[k])),
    decreases k,
{
    if k > 0 {
        lemma_grow_print_chain(tr1, tr2, ch, n, k - 1);
        lemma_ni_print_chain(tr1, tr2, ch, n, k - 1);
        assert(post_print(tr1[k - 1], tr1[k - 1 + 1], ch));
        assert(post_print(tr2[k - 1], tr2[k - 1 + 1], ch));
        lemma_grow_print(tr1[k - 1], tr2[k - 1], tr1[k], tr2[k], Function::Print(ch));
        lemma_grow_trans(primary(tr1[0]), primary(tr1[k - 1]), primary(tr1[k]), primary(tr2[0]), primary(tr2[k - 1]), primary(tr2[k]));
    }
}

/// [C14] Rep
pub proof fn lemma_grow_rep(o1: Terminal, o2: Terminal, f1: Terminal, f2: Terminal, fun: Function)
    requires
        o1.wf(), o2.wf(), vis_eq(o1, o2), fun is Rep,
        exec_post(o1, f1, fun), exec_post(o2, f2, fun),
    ensures
        grows(primary(o1), primary(f1)), grows(primary(o2), primary(f2)),
        push_eq(primary(o1), primary(f1), primary(o2), primary(f2)),
{
    let n = fun->Rep_0;
    if o1.cursor.col > 0 {
        let k = param_or(n, 1);
        assert(o1.buffer.row(o1.cursor.row as int).v() == o2.buffer.row(o2.cursor.row as int).v());
        let ch = o1.buffer.row(o1.cursor.row as int).cells@[o1.cursor.col - 1].0;
        let tr1 = choose|tr: Seq<Terminal>| #[trigger] tr.len() == k + 1 && tr[0] == o1 && tr[k] == f1 && (forall|i: int| 0 <= i < k ==> post_print(#[trigger] tr[i], tr[i + 1], ch));
        let tr2 = choose|tr: Seq<Terminal>| #[trigger] tr.len() == k + 1 && tr[0] == o2 && tr[k] == f2 && (forall|i: int| 0 <= i < k ==> post_print(#[trigger] tr[i], tr[i + 1], ch));
        lemma_grow_print_chain(tr1, tr2, ch, k, k);
    }
}

/// [C14] one DECSET / DECRST mode never adds to or alters the primary's lines (screen switches
/// only swap the buffers; with the inactive buffer at the terminal's size reflow is the identity)
pub proof fn lemma_grow_decset_one(o1: Terminal, o2: Terminal, f1: Terminal, f2: Terminal, m: DecMode)
    requires
        o1.wf(), o2.wf(), vis_eq(o1, o2),
        decset_one(o1, f1, m), decset_one(o2, f2, m),
    ensures
        grows(primary(o1), primary(f1)), grows(primary(o2), primary(f2)),
        push_eq(primary(o1), primary(f1), primary(o2), primary(f2)),
{
    reveal(decset_one);
}

/// [C14] (auxiliary)
pub proof fn lemma_grow_decrst_one(o1: Terminal, o2: Terminal, f1: Terminal, f2: Terminal, m: DecMode)
    requires
        o1.wf(), o2.wf(), vis_eq(o1, o2),
        decrst_one(o1, f1, m), decrst_one(o2, f2, m),
    ensures
        grows(primary(o1), primary(f1)), grows(primary(o2), primary(f2)),
        push_eq(primary(o1), primary(f1), primary(o2), primary(f2)),
{
    reveal(decrst_one);
}

/// [C14] (auxiliary)
pub proof fn lemma_grow_decset_chain(tr1: Seq<Terminal>, tr2: Seq<Terminal>, modes: Seq<DecMode>, k: int)
    requires
        0 <= k <= modes.len(), tr1.len() == modes.len() + 1, tr2.len() == modes.len() + 1,
        tr1[0].wf(), tr2[0].wf(), vis_eq(tr1[0], tr2[0]),
        forall|i: int| 0 <= i < modes.len() ==> decset_one(#[trigger] tr1[i], tr1[i + 1], modes[i]),
        forall|i: int| 0 <= i < modes.len() ==> decset_one(#[trigger] tr2[i], tr2[i + 1], modes[i]),
    ensures
        grows(primary(tr1[0]), primary(tr1[k])), grows(primary(tr2[0]), primary(tr2[k])),
        push_eq(primary(tr1[0]), primary(tr1[k]), primary(tr2[0]), primary(tr2[k])),
    decreases k,
{
    if k > 0 {
        lemma_grow_decset_chain(tr1, tr2, modes, k - 1);
        lemma_ni_decset_chain(tr1, tr2, modes, k - 1);
        assert(decset_one(tr1[k - 1], tr1[k - 1 + 1], modes[k - 1]));
        assert(decset_one(tr2[k - 1], tr2[k - 1 + 1], modes[k - 1]));
        lemma_grow_decset_one(tr1[k - 1], tr2[k - 1], tr1[k], tr2[k], modes[k - 1]);
        lemma_grow_trans(primary(tr1[0]), primary(tr1[k - 1]), primary(tr1[k]), primary(tr2[0]), primary(tr2[k - 1]), primary(tr2[k]));
    }
}

/// [C14] (auxiliary)
pub proof fn lemma_grow_decrst_chain(tr1: Seq<Terminal>, tr2: Seq<Terminal>, modes: Seq<DecMode>, k: int)
    requires
        0 <= k <= modes.len(), tr1.len() == modes.len() + 1, tr2.len() == modes.len() + 1,
        tr1[0].wf(), tr2[0].wf(), vis_eq(tr1[0], tr2[0]),
        forall|i: int| 0 <= i < modes.len() ==> decrst_one(#[trigger] tr1[i], tr1[i + 1], modes[i]),
        forall|i: int| 0 <= i < modes.len() ==> decrst_one(#[trigger] tr2[i], tr2[i + 1], modes[i]),
    ensures
        grows(primary(tr1[0]), primary(tr1[k])), grows(primary(tr2[0]), primary(tr2[k])),
        push_eq(primary(tr1[0]), primary(tr1[k]), primary(tr2[0]), primary(tr2[k])),
    decreases k,
{
    if k > 0 {
        lemma_grow_decrst_chain(tr1, tr2, modes, k - 1);
        lemma_ni_decrst_chain(tr1, tr2, modes, k - 1);
        assert(decrst_one(tr1[k - 1], tr1[k - 1 + 1], modes[k - 1]));
        assert(decrst_one(tr2[k - 1], tr2[k - 1 + 1], modes[k - 1]));
        lemma_grow_decrst_one(tr1[k - 1], tr2[k - 1], tr1[k], tr2[k], modes[k - 1]);
        lemma_grow_trans(primary(tr1[0]), primary(tr1[k - 1]), primary(tr1[k]), primary(tr2[0]), primary(tr2[k - 1]), primary(tr2[k]));
    }
}

/// [C14] (auxiliary)
pub proof fn lemma_grow_decset(o1: Terminal, o2: Terminal, f1: Terminal, f2: Terminal, fun: Function)
    requires
        o1.wf(), o2.wf(), vis_eq(o1, o2), fun is Decset,
        exec_post(o1, f1, fun), exec_post(o2, f2, fun),
    ensures
        grows(primary(o1), primary(f1)), grows(primary(o2), primary(f2)),
        push_eq(primary(o1), primary(f1), primary(o2), primary(f2)),
{
    let modes = fun->Decset_0;
    let tr1 = choose|tr: Seq<Terminal>| #[trigger] tr.len() == modes@.len() + 1 && tr[0] == o1 && tr[modes@.len() as int] == f1 && (forall|i: int| 0 <= i < modes@.len() ==> decset_one(#[trigger] tr[i], tr[i + 1], modes@[i]));
    let tr2 = choose|tr: Seq<Terminal>| #[trigger] tr.len() == modes@.len() + 1 && tr[0] == o2 && tr[modes@.len() as int] == f2 && (forall|i: int| 0 <= i < modes@.len() ==> decset_one(#[trigger] tr[i], tr[i + 1], modes@[i]));
    lemma_grow_decset_chain(tr1, tr2, modes@, modes@.len() as int);
}

/// [C14] (auxiliary)
pub proof fn lemma_grow_decrst(o1: Terminal, o2: Terminal, f1: Terminal, f2: Terminal, fun: Function)
    requires
        o1.wf(), o2.wf(), vis_eq(o1, o2), fun is Decrst,
        exec_post(o1, f1, fun), exec_post(o2, f2, fun),
    ensures
        grows(primary(o1), primary(f1)), grows(primary(o2), primary(f2)),
        push_eq(primary(o1), primary(f1), primary(o2), primary(f2)),
{
    let modes = fun->Decrst_0;
    let tr1 = choose|tr: Seq<Terminal>| #[trigger] tr.len() == modes@.len() + 1 && tr[0] == o1 && tr[modes@.len() as int] == f1 && (forall|i: int| 0 <= i < modes@.len() ==> decrst_one(#[trigger] tr[i], tr[i + 1], modes@[i]));
    let tr2 = choose|tr: Seq<Terminal>| #[trigger] tr.len() == modes@.len() + 1 && tr[0] == o2 && tr[modes@.len() as int] == f2 && (forall|i: int| 0 <= i < modes@.len() ==> decrst_one(#[trigger] tr[i], tr[i + 1], modes@[i]));
    lemma_grow_decrst_chain(tr1, tr2, modes@, modes@.len() as int);
}

/// [C14] every control function except a hard reset (and the disabled window resize): the
/// primary screen's lines only grow at the scrollback/view boundary, identically in both runs
pub proof fn lemma_grow_step(o1: Terminal, o2: Terminal, f1: Terminal, f2: Terminal, fun: Function)
    requires
        o1.wf(), o2.wf(), vis_eq(o1, o2), !(fun is Xtwinops), !(fun is Ris),
        exec_post(o1, f1, fun), exec_post(o2, f2, fun),
    ensures
        grows(primary(o1), primary(f1)), grows(primary(o2), primary(f2)),
        push_eq(primary(o1), primary(f1), primary(o2), primary(f2)),
{
    match fun {
        Function::Bs => lemma_grow_bs(o1, o2, f1, f2, fun),
        Function::Cbt(_) => lemma_grow_cbt(o1, o2, f1, f2, fun),
        Function::Cha(_) => lemma_grow_cha(o1, o2, f1, f2, fun),
        Function::Cht(_) => lemma_grow_cht(o1, o2, f1, f2, fun),
        Function::Cnl(_) => lemma_grow_cnl(o1, o2, f1, f2, fun),
        Function::Cpl(_) => lemma_grow_cpl(o1, o2, f1, f2, fun),
        Function::Cr => lemma_grow_cr(o1, o2, f1, f2, fun),
        Function::Ctc(_) => lemma_grow_ctc(o1, o2, f1, f2, fun),
        Function::Cub(_) => lemma_grow_cub(o1, o2, f1, f2, fun),
        Function::Cud(_) => lemma_grow_cud(o1, o2, f1, f2, fun),
        Function::Cuf(_) => lemma_grow_cuf(o1, o2, f1, f2, fun),
        Function::Cup(_, _) => lemma_grow_cup(o1, o2, f1, f2, fun),
        Function::Cuu(_) => lemma_grow_cuu(o1, o2, f1, f2, fun),
        Function::Dch(_) => lemma_grow_dch(o1, o2, f1, f2, fun),
        Function::Decaln => lemma_grow_decaln(o1, o2, f1, f2, fun),
        Function::Decrc => lemma_grow_decrc(o1, o2, f1, f2, fun),
        Function::Decsc => lemma_grow_decsc(o1, o2, f1, f2, fun),
        Function::Decstbm(_, _) => lemma_grow_decstbm(o1, o2, f1, f2, fun),
        Function::Decstr => lemma_grow_decstr(o1, o2, f1, f2, fun),
        Function::Dl(_) => lemma_grow_dl(o1, o2, f1, f2, fun),
        Function::Ech(_) => lemma_grow_ech(o1, o2, f1, f2, fun),
        Function::Ed(_) => lemma_grow_ed(o1, o2, f1, f2, fun),
        Function::El(_) => lemma_grow_el(o1, o2, f1, f2, fun),
        Function::G1d4(_) => lemma_grow_g1d4(o1, o2, f1, f2, fun),
        Function::Gzd4(_) => lemma_grow_gzd4(o1, o2, f1, f2, fun),
        Function::Ht => lemma_grow_ht(o1, o2, f1, f2, fun),
        Function::Hts => lemma_grow_hts(o1, o2, f1, f2, fun),
        Function::Ich(_) => lemma_grow_ich(o1, o2, f1, f2, fun),
        Function::Il(_) => lemma_grow_il(o1, o2, f1, f2, fun),
        Function::Lf => lemma_grow_lf(o1, o2, f1, f2, fun),
        Function::Nel => lemma_grow_nel(o1, o2, f1, f2, fun),
        Function::Print(_) => lemma_grow_print(o1, o2, f1, f2, fun),
        Function::Rep(_) => lemma_grow_rep(o1, o2, f1, f2, fun),
        Function::Ri => lemma_grow_ri(o1, o2, f1, f2, fun),
        Function::Rm(_) => lemma_grow_rm(o1, o2, f1, f2, fun),
        Function::Scorc => lemma_grow_scorc(o1, o2, f1, f2, fun),
        Function::Scosc => lemma_grow_scosc(o1, o2, f1, f2, fun),
        Function::Sd(_) => lemma_grow_sd(o1, o2, f1, f2, fun),
        Function::Sgr(_) => lemma_grow_sgr(o1, o2, f1, f2, fun),
        Function::Si => lemma_grow_si(o1, o2, f1, f2, fun),
        Function::Sm(_) => lemma_grow_sm(o1, o2, f1, f2, fun),
        Function::So => lemma_grow_so(o1, o2, f1, f2, fun),
        Function::Su(_) => lemma_grow_su(o1, o2, f1, f2, fun),
        Function::Tbc(_) => lemma_grow_tbc(o1, o2, f1, f2, fun),
        Function::Vpa(_) => lemma_grow_vpa(o1, o2, f1, f2, fun),
        Function::Vpr(_) => lemma_grow_vpr(o1, o2, f1, f2, fun),
        Function::Decset(_) => lemma_grow_decset(o1, o2, f1, f2, fun),
        Function::Decrst(_) => lemma_grow_decrst(o1, o2, f1, f2, fun),
        Function::Ris => {},
        Function::Xtwinops(_) => {},
    }
}

/// [C14] the simulation relation between a terminal with a scrollback limit and one without:
/// same visible state, and the lines handed out so far followed by the limited terminal's
/// primary lines are exactly the unlimited terminal's primary lines
pub open spec fn sim(lim: Terminal, unl: Terminal, out: Seq<LineV>) -> bool {
    &&& vis_eq(lim, unl)
    &&& out + lines_v(primary(lim)) =~= lines_v(primary(unl))
}

/// [C14] executing the same control function on both preserves the simulation
pub proof fn lemma_c14_fun_step(l0: Terminal, u0: Terminal, l1: Terminal, u1: Terminal, out: Seq<LineV>, fun: Function)
    requires
        l0.wf(), u0.wf(), sim(l0, u0, out), !(fun is Xtwinops), !(fun is Ris),
        exec_post(l0, l1, fun), exec_post(u0, u1, fun),
    ensures
        sim(l1, u1, out), l1.wf(), u1.wf(),
{
    lemma_ni_step(l0, u0, l1, u1, fun);
    lemma_grow_step(l0, u0, l1, u1, fun);
    lemma_exec_post_wf(l0, l1, fun);
    lemma_exec_post_wf(u0, u1, fun);
    let a = primary(l0); let b = primary(l1); let c = primary(u0); let d = primary(u1);
    let lhs = out + lines_v(b);
    let rhs = lines_v(d);
    assert((out + lines_v(a)).len() == lines_v(c).len());
    assert(lhs.len() == rhs.len());
    assert forall|i: int| 0 <= i < lhs.len() implies lhs[i] == rhs[i] by {
        if i < out.len() {
            assert((out + lines_v(a))[i] == lines_v(c)[i]);
            assert(d.lines@[i].v() == c.lines@[i].v());
        } else if i < out.len() + a.off() {
            assert((out + lines_v(a))[i] == lines_v(c)[i]);
            assert(b.lines@[i - out.len()].v() == a.lines@[i - out.len()].v());
            assert(d.lines@[i].v() == c.lines@[i].v());
        } else if i < out.len() + a.off() + (b.len() - a.len()) {
            let j = i - out.len() - a.off();
            assert(b.lines@[a.off() + j].v() == d.lines@[c.off() + j].v());
        } else {
            let r = i - out.len() - b.off();
            assert(b.row(r).v() == d.row(r).v());
        }
    }
}

/// what `Terminal::gc` does (the function itself returns `Box<dyn Iterator + '_>` and is outside
/// Verus; Kani checks this relation on the real code, see kani/buffer.rs k_gc_drop and
/// kani/terminal.rs): the oldest `e` lines of the active buffer are removed; they are handed out
/// iff the primary screen is active
pub open spec fn gc_rel(o: Terminal, f: Terminal, e: int, handed: Seq<LineV>) -> bool {
    &&& 0 <= e <= o.buffer.off()
    &&& f.wf()
    &&& vis_eq(o, f)
    &&& f.active_buffer_type == o.active_buffer_type
    &&& lines_v(f.buffer) =~= lines_v(o.buffer).subrange(e, o.buffer.len())
    &&& lines_v(f.other_buffer) =~= lines_v(o.other_buffer)
    &&& handed == (if o.active_buffer_type == BufferType::Primary { lines_v(o.buffer).subrange(0, e) } else { Seq::<LineV>::empty() })
}

/// [C14] a trim on the limited terminal (while the unlimited one takes a silent step that keeps
/// its lines) moves lines from the terminal to the handed-out stream and preserves the simulation
pub proof fn lemma_c14_gc_step(l0: Terminal, u0: Terminal, l1: Terminal, u1: Terminal, out: Seq<LineV>, e: int, handed: Seq<LineV>)
    requires
        l0.wf(), u0.wf(), sim(l0, u0, out),
        gc_rel(l0, l1, e, handed),
        u1.wf(), vis_eq(u0, u1), u1.active_buffer_type == u0.active_buffer_type,
        lines_v(primary(u1)) =~= lines_v(primary(u0)),
    ensures
        sim(l1, u1, out + handed),
{
    lemma_vis_eq_trans(l0, u0, u1);
    lemma_vis_eq_trans(l0, l1, l1);
    lemma_vis_eq_trans(l1, l0, u1);
}

/// one step of a session without hard reset or resize, as seen by the pair (limited, unlimited)
pub open spec fn c14_step(l0: Terminal, u0: Terminal, o0: Seq<LineV>, l1: Terminal, u1: Terminal, o1: Seq<LineV>) -> bool {
    ||| (exists|fun: Function| !(fun is Xtwinops) && !(fun is Ris) && #[trigger] exec_post(l0, l1, fun) && exec_post(u0, u1, fun) && o1 == o0)
    ||| (exists|e: int, handed: Seq<LineV>| #[trigger] gc_rel(l0, l1, e, handed) && u1.wf() && vis_eq(u0, u1)
            && u1.active_buffer_type == u0.active_buffer_type && lines_v(primary(u1)) =~= lines_v(primary(u0)) && o1 == o0 + handed)
}

/// [C14] THE SCROLLBACK THEOREM.  Any session of control functions (no RIS, no resize) interleaved
/// with trims, run on a terminal with a scrollback limit and on one without, both started from
/// the same state with nothing handed out: at every point the lines handed out so far followed
/// by the limited terminal's primary lines are exactly the unlimited terminal's primary lines -
/// same order, each exactly once, cell-for-cell and wrap-mark identical.
pub proof fn lemma_c14_session(ls: Seq<Terminal>, us: Seq<Terminal>, outs: Seq<Seq<LineV>>, n: int, k: int)
    requires
        0 <= k <= n, ls.len() == n + 1, us.len() == n + 1, outs.len() == n + 1,
        ls[0].wf(), us[0].wf(), sim(ls[0], us[0], outs[0]),
        forall|i: int| 0 <= i < n ==> c14_step(#[trigger] ls[i], us[i], outs[i], ls[i + 1], us[i + 1], outs[i + 1]),
    ensures
        sim(ls[k], us[k], outs[k]), ls[k].wf(), us[k].wf(),
    decreases k,
{
    if k > 0 {
        lemma_c14_session(ls, us, outs, n, k - 1);
        let i = k - 1;
        assert(c14_step(ls[i], us[i], outs[i], ls[i + 1], us[i + 1], outs[i + 1]));
        if exists|fun: Function| !(fun is Xtwinops) && !(fun is Ris) && #[trigger] exec_post(ls[i], ls[i + 1], fun) && exec_post(us[i], us[i + 1], fun) && outs[i + 1] == outs[i] {
            let fun = choose|fun: Function| !(fun is Xtwinops) && !(fun is Ris) && #[trigger] exec_post(ls[i], ls[i + 1], fun) && exec_post(us[i], us[i + 1], fun) && outs[i + 1] == outs[i];
            lemma_c14_fun_step(ls[i], us[i], ls[i + 1], us[i + 1], outs[i], fun);
        } else {
            let (e, handed) = choose|e: int, handed: Seq<LineV>| #[trigger] gc_rel(ls[i], ls[i + 1], e, handed) && us[i + 1].wf() && vis_eq(us[i], us[i + 1])
                && us[i + 1].active_buffer_type == us[i].active_buffer_type && lines_v(primary(us[i + 1])) =~= lines_v(primary(us[i])) && outs[i + 1] == outs[i] + handed;
            lemma_c14_gc_step(ls[i], us[i], ls[i + 1], us[i + 1], outs[i], e, handed);
        }
    }
}

/// [C13] after a trim the scrollback is within the hard limit (the relation `Buffer::gc`
/// satisfies on the real code is checked by Kani, k_gc_drop): stated here as the consequence for
/// lines(): at most rows + L + L/10 lines, exactly `rows` when L = 0
pub proof fn lemma_c13_bound(b: Buffer, l: usize)
    requires
        b.wf(), !b.trim_needed,
        b.scrollback_limit == Some(ScrollbackLimit { soft: l, hard: (l + l / 10) as usize }),
        l <= crate::MEM_MAX,
    ensures
        b.len() <= b.rows + l + l / 10,
        l == 0 ==> b.len() == b.rows,
{
}

} // verus!
