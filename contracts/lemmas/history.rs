// Lemmas over the contracts (pure Verus, no executable code): each listed property that
// quantifies over histories is reduced here to per-step facts that follow from the
// postconditions proved on the real functions.
#![allow(unused_imports)]
use vstd::prelude::*;
use crate::parser::*;
use crate::terminal::*;
use crate::buffer::*;
use crate::line::*;
use crate::pen::*;

verus! {

// ---- C03: a 7-bit `ESC Fe` acts exactly like its 8-bit C1 counterpart ----------------------

/// [C03] for every Fe in 0x40..=0x5f, from the Escape state (entered with cleared parameters,
/// no intermediate): same next state as the C1 control Fe+0x40 from any state, and the same
/// function (or the same absence of one)
pub proof fn lemma_c03_esc_fe_equals_c1(fe: char, any: State)
    requires
        0x40 <= fe as u32 <= 0x5f,
    ensures
        ({
            let c1 = ((fe as u32 + 0x40) as u8) as char;
            let t7 = williams(State::Escape, fe);
            let t8 = williams(any, c1);
            &&& t7.next == t8.next
            &&& (t7.act is EscDispatch ==> esc_table(None, fe) == (if t8.act is Execute { c0c1_table(c1) } else { None::<Function> }))
            &&& (t7.act is Clear <==> t8.act is Clear)
            &&& (!(t7.act is EscDispatch) && !(t7.act is Clear) ==> t7.act is Ignore && t8.act is Ignore)
        }),
{
}

// ---- C19: ESC c from anywhere ---------------------------------------------------------------

/// [C19] from every parser state ESC leads to Escape with cleared parameters, and `c` then
/// dispatches RIS and returns to ground
pub proof fn lemma_c19_esc_c(s: State)
    ensures
        williams(s, '\u{1b}').next == State::Escape,
        williams(s, '\u{1b}').act is Clear,
        williams(State::Escape, 'c').next == State::Ground,
        williams(State::Escape, 'c').act is EscDispatch,
        esc_table(None, 'c') == Some(Function::Ris),
{
}

// ---- C20: control strings and unimplemented sequences are inert ------------------------------

pub open spec fn is_string_state(s: State) -> bool {
    s is OscString || s is DcsPassthrough || s is DcsIgnore || s is SosPmApcString
}

/// payload characters: printable ASCII, non-ASCII text >= U+00A0, C0 controls other than
/// CAN / SUB / ESC (and BEL inside OSC)
pub open spec fn is_payload(s: State, c: char) -> bool {
    let x = c as u32;
    &&& !(0x80 <= x <= 0x9f)
    &&& x != 0x18 && x != 0x1a && x != 0x1b
    &&& !(s is OscString && x == 0x07)
}

/// [C20] every payload character is swallowed: same state, no function
pub proof fn lemma_c20_payload_swallowed(s: State, c: char)
    requires
        is_string_state(s),
        is_payload(s, c),
    ensures
        williams(s, c).next == s,
        williams(s, c).act is Ignore,
{
}

/// [C20] the terminators: 8-bit ST from any state, BEL inside OSC, and 7-bit ST (ESC then `\`)
pub proof fn lemma_c20_terminators(s: State)
    ensures
        williams(s, '\u{9c}').next == State::Ground && williams(s, '\u{9c}').act is Ignore,
        williams(State::OscString, '\u{07}').next == State::Ground && williams(State::OscString, '\u{07}').act is Ignore,
        williams(s, '\u{1b}').next == State::Escape,
        williams(State::Escape, '\\').next == State::Ground && williams(State::Escape, '\\').act is EscDispatch,
        esc_table(None, '\\') == None::<Function>,
{
}

/// [C20] all five string kinds are entered by their 7- and 8-bit introducers
pub proof fn lemma_c20_introducers(s: State)
    ensures
        williams(State::Escape, ']').next == State::OscString && williams(s, '\u{9d}').next == State::OscString,
        williams(State::Escape, 'P').next == State::DcsEntry && williams(s, '\u{90}').next == State::DcsEntry,
        williams(State::Escape, 'X').next == State::SosPmApcString && williams(s, '\u{98}').next == State::SosPmApcString,
        williams(State::Escape, '^').next == State::SosPmApcString && williams(s, '\u{9e}').next == State::SosPmApcString,
        williams(State::Escape, '_').next == State::SosPmApcString && williams(s, '\u{9f}').next == State::SosPmApcString,
{
}

/// [C20] unassigned C0 / C1 controls execute to nothing
pub proof fn lemma_c20_unassigned_controls(c: char)
    requires
        ({ let x = c as u32; x <= 0x1f || (0x80 <= x <= 0x9f) }),
        ({ let x = c as u32; !(0x08 <= x <= 0x0f) && x != 0x84 && x != 0x85 && x != 0x88 && x != 0x8d }),
    ensures
        c0c1_table(c) == None::<Function>,
{
}

/// [C20] CSI with a private marker `<` `=` `>` or with any intermediate other than the DECSTR
/// spelling dispatches to nothing, whatever the final byte
pub proof fn lemma_c20_csi_marker_inert(ps: [Param; PARAMS_LEN], cur: usize, i: char, c: char, r: Option<Function>)
    requires
        csi_matches(r, ps, cur, Some(i), c),
        i != '?',
        !(i == '!' && c == 'p'),
    ensures
        r == None::<Function>,
{
}

// ---- per-step facts over Terminal::execute's postcondition (exec_post) --------------------------

/// [C16] a control function executed while the alternate screen is showing - anything except
/// leaving it (DECRST), a hard reset or a window resize - leaves the primary buffer, its
/// scrollback and its saved cursor context exactly as they were
pub proof fn lemma_c16_step(o: Terminal, f: Terminal, fun: Function)
    requires
        o.wf(),
        o.active_buffer_type == BufferType::Alternate,
        exec_post(o, f, fun),
        !(fun is Decrst) && !(fun is Ris) && !(fun is Xtwinops),
    ensures
        f.active_buffer_type == BufferType::Alternate,
        f.other_buffer == o.other_buffer,
        f.alternate_saved_ctx == o.alternate_saved_ctx,
{
}

/// [C17] the active screen's saved context is touched only by the save spellings, soft / hard
/// reset and the mode functions (which contain the ?1048 / ?1049 spellings and the screen switches)
pub proof fn lemma_c17_step(o: Terminal, f: Terminal, fun: Function)
    requires
        o.wf(),
        exec_post(o, f, fun),
        !(fun is Decsc) && !(fun is Scosc) && !(fun is Decstr) && !(fun is Ris) && !(fun is Decset) && !(fun is Decrst) && !(fun is Xtwinops),
    ensures
        f.saved_ctx == o.saved_ctx,
{
}

/// [C06] only LF/IND/NEL, printing (auto-wrap), REP, SU and DL - and the reset / mode functions -
/// can add to the scrollback; every other control function leaves it line-for-line unchanged
pub proof fn lemma_c06_scrollback_step(o: Terminal, f: Terminal, fun: Function)
    requires
        o.wf(),
        exec_post(o, f, fun),
        !(fun is Lf) && !(fun is Nel) && !(fun is Print) && !(fun is Rep) && !(fun is Su) && !(fun is Dl),
        !(fun is Ris) && !(fun is Decset) && !(fun is Decrst) && !(fun is Xtwinops),
    ensures
        f.buffer.off() == o.buffer.off(),
        forall|i: int| 0 <= i < o.buffer.off() ==> (#[trigger] f.buffer.lines@[i]).v() == o.buffer.lines@[i].v(),
{
}

/// [C15] whatever control function is executed (other than a hard reset / window resize, which
/// flag every row), a row that ends up unflagged was unflagged before and is cell-for-cell unchanged
pub proof fn lemma_c15_step(o: Terminal, f: Terminal, fun: Function)
    requires
        o.wf(),
        exec_post(o, f, fun),
        !(fun is Ris) && !(fun is Xtwinops),
    ensures
        f.dirty_sound(o),
{
    if f.buffer == o.buffer && f.dirty_lines == o.dirty_lines {
        lemma_dirty_sound_same(o, f);
    }
}

/// [C05] none of the cursor movement / addressing commands changes any cell, wrap mark, the
/// scrollback, a mode, the margins (except DECSTBM itself) or a tab stop
pub proof fn lemma_c05_moves_change_no_cell(o: Terminal, f: Terminal, fun: Function)
    requires
        o.wf(),
        exec_post(o, f, fun),
        fun is Cuu || fun is Cud || fun is Cuf || fun is Cub || fun is Cnl || fun is Cpl || fun is Vpr || fun is Bs || fun is Cr
            || fun is Ht || fun is Cht || fun is Cbt || fun is Cup || fun is Cha || fun is Vpa || fun is Decstbm,
    ensures
        f.buffer == o.buffer,
        f.dirty_lines == o.dirty_lines,
        f.pen == o.pen,
        f.tabs == o.tabs,
        f.insert_mode == o.insert_mode && f.origin_mode == o.origin_mode && f.auto_wrap_mode == o.auto_wrap_mode,
{
}

} // verus!
