impl vstd::std_specs::convert::FromSpecImpl<char> for Cell {
    open spec fn obeys_from_spec() -> bool { true }
    open spec fn from_spec(v: char) -> Cell { Cell(v, Pen::default_spec()) }
}
