use crate::line::{LineV, blank_line, blank_cells, cleared, inserted, deleted};
pub open spec fn min_int(a: int, b: int) -> int { if a <= b { a } else { b } }
pub open spec fn max_int(a: int, b: int) -> int { if a >= b { a } else { b } }

pub open spec fn unwrapped(l: LineV) -> LineV { LineV { cells: l.cells, wrapped: false } }

impl Buffer {
    pub open spec fn len(&self) -> int { self.lines@.len() as int }

    /// number of scrollback lines (lines above the view)
    pub open spec fn off(&self) -> int { self.len() - self.rows }

    pub open spec fn limit_wf(&self) -> bool {
        match self.scrollback_limit {
            Some(l) => l.hard == l.soft + l.soft / 10 && l.soft <= crate::MEM_MAX,
            None => true,
        }
    }

    /// [C02] geometry: at least `rows` lines, every line exactly `cols` cells
    pub open spec fn wf_geom(&self) -> bool {
        &&& 1 <= self.cols <= crate::MEM_MAX
        &&& 1 <= self.rows <= crate::MEM_MAX
        &&& self.len() >= self.rows
        &&& forall|i: int| 0 <= i < self.len() ==> (#[trigger] self.lines@[i]).cells@.len() == self.cols
        &&& self.limit_wf()
    }

    /// [C13] either a trim is scheduled or the scrollback is within the hard limit
    pub open spec fn trim_ok(&self) -> bool {
        self.trim_needed || match self.scrollback_limit {
            Some(l) => self.off() <= l.hard,
            None => true,
        }
    }

    /// [C02] the invariant that holds between public operations
    pub open spec fn wf(&self) -> bool {
        &&& self.wf_geom()
        &&& !self.lines@[self.len() - 1].wrapped
        &&& self.trim_ok()
    }

    /// row `r` of the view
    pub open spec fn row(&self, r: int) -> Line { self.lines@[self.off() + r] }

    pub open spec fn same_meta(&self, o: Buffer) -> bool {
        &&& self.cols == o.cols
        &&& self.rows == o.rows
        &&& self.scrollback_limit == o.scrollback_limit
    }

    /// [C06,C14,C16] the scrollback (everything above the view) is untouched
    pub open spec fn sback_same(&self, o: Buffer) -> bool {
        &&& self.off() == o.off()
        &&& forall|i: int| 0 <= i < o.off() ==> (#[trigger] self.lines@[i]).v() == o.lines@[i].v()
    }

    /// every view row outside `r0..r1` is identical to what it was
    pub open spec fn rows_same_outside(&self, o: Buffer, r0: int, r1: int) -> bool {
        forall|r: int| 0 <= r < o.rows && !(r0 <= r < r1) ==> (#[trigger] self.row(r)).v() == o.row(r).v()
    }

    /// whole-buffer equality of abstract values
    pub open spec fn same(&self, o: Buffer) -> bool {
        &&& self.same_meta(o)
        &&& self.trim_needed == o.trim_needed
        &&& self.len() == o.len()
        &&& forall|i: int| 0 <= i < o.len() ==> (#[trigger] self.lines@[i]).v() == o.lines@[i].v()
    }

    /// [C06] `self` is `o` after scroll_up(start..end, n, pen)
    pub open spec fn scrolled_up(&self, o: Buffer, start: int, end: int, n: int, pen: Pen) -> bool {
        let k = min_int(n, end - start);
        &&& self.same_meta(o)
        &&& self.trim_needed
        &&& self.len() == o.len() + (if start == 0 { k } else { 0 })
        &&& (forall|i: int| 0 <= i < o.off() ==> (#[trigger] self.lines@[i]).v() == o.lines@[i].v())
        &&& (start == 0 ==> forall|j: int| 0 <= j < k ==> (#[trigger] self.lines@[o.off() + j]).v() == o.row_pre_su(end, j))
        &&& (forall|r: int| 0 <= r < o.rows ==> (#[trigger] self.row(r)).v() == o.su_row(start, end, k, pen, r))
    }

    /// [C06] `self` is `o` after scroll_down(start..end, n, pen)
    pub open spec fn scrolled_down(&self, o: Buffer, start: int, end: int, n: int, pen: Pen) -> bool {
        &&& self.same_meta(o)
        &&& self.trim_needed == o.trim_needed
        &&& self.sback_same(o)
        &&& (forall|r: int| 0 <= r < o.rows ==> (#[trigger] self.row(r)).v() == o.sd_row(start, end, min_int(n, end - start), pen, r))
    }

    /// [C07] `self` is `o` after erase((col, row), mode, pen)
    pub open spec fn erased(&self, o: Buffer, col: int, row: int, mode: EraseMode, pen: Pen) -> bool {
        &&& self.same_meta(o)
        &&& self.trim_needed == o.trim_needed
        &&& self.sback_same(o)
        &&& (forall|r: int, c: int| 0 <= r < o.rows && 0 <= c < o.cols ==> (#[trigger] self.row(r).cells@[c]) == (if erase_extent(mode, col, row, o.cols as int, c, r) { Cell(' ', pen) } else { o.row(r).cells@[c] }))
        &&& (forall|r: int| 0 <= r < o.rows ==> (#[trigger] self.row(r)).wrapped == (o.row(r).wrapped && !erase_unwraps(mode, col, row, o.cols as int, r)))
    }

    /// only view row `row` may differ from `o`; scrollback and bookkeeping are the same
    pub open spec fn only_row_changed(&self, o: Buffer, row: int) -> bool {
        &&& self.same_meta(o)
        &&& self.trim_needed == o.trim_needed
        &&& self.sback_same(o)
        &&& self.rows_same_outside(o, row, row + 1)
    }

    /// a fresh buffer: `rows` blank lines of width `cols` in `pen`, nothing above the view
    pub open spec fn is_fresh(&self, cols: int, rows: int, limit: Option<usize>, pen: Pen) -> bool {
        &&& self.wf()
        &&& self.cols == cols
        &&& self.rows == rows
        &&& self.len() == rows
        &&& !self.trim_needed
        &&& (forall|i: int| 0 <= i < rows ==> (#[trigger] self.lines@[i]).v() == blank_line(cols, pen))
        &&& (match limit { Some(l) => self.scrollback_limit == Some(ScrollbackLimit { soft: l, hard: (l + l / 10) as usize }), None => self.scrollback_limit is None })
    }

    /// abstract equality of everything observable (lines, geometry, limit, trim flag)
    pub open spec fn same_lines(&self, o: Buffer) -> bool {
        &&& self.len() == o.len()
        &&& forall|i: int| 0 <= i < o.len() ==> (#[trigger] self.lines@[i]).v() == o.lines@[i].v()
    }

    /// row r of `self` with the unwrap that scroll_up applies to the last row of the range
    pub open spec fn row_pre_su(&self, end: int, r: int) -> LineV {
        if r == end - 1 && end - 1 < self.rows - 1 { unwrapped(self.row(r).v()) } else { self.row(r).v() }
    }

    /// [C06] view row `r` after scroll_up(start..end, k, pen)
    pub open spec fn su_row(&self, start: int, end: int, k: int, pen: Pen, r: int) -> LineV {
        if start <= r < end {
            if r < end - k { self.row_pre_su(end, r + k) } else { blank_line(self.cols as int, pen) }
        } else if r == start - 1 {
            unwrapped(self.row(r).v())
        } else {
            self.row(r).v()
        }
    }

    /// [C06] view row `r` after scroll_down(start..end, k, pen)
    pub open spec fn sd_row(&self, start: int, end: int, k: int, pen: Pen, r: int) -> LineV {
        if start <= r < end {
            if r < start + k { blank_line(self.cols as int, pen) }
            else if r == end - 1 { unwrapped(self.row(r - k).v()) }
            else { self.row(r - k).v() }
        } else if r == start - 1 {
            unwrapped(self.row(r).v())
        } else {
            self.row(r).v()
        }
    }
}

/// [C07] is cell (c, r) inside the extent of the erase?
pub open spec fn erase_extent(mode: EraseMode, col: int, row: int, cols: int, c: int, r: int) -> bool {
    match mode {
        EraseMode::NextChars(n) => r == row && col <= c < col + min_int(n as int, cols - col),
        EraseMode::FromCursorToEndOfView => (r == row && c >= col) || r > row,
        EraseMode::FromStartOfViewToCursor => (r == row && c <= col) || r < row,
        EraseMode::WholeView => true,
        EraseMode::FromCursorToEndOfLine => r == row && c >= col,
        EraseMode::FromStartOfLineToCursor => r == row && c <= col,
        EraseMode::WholeLine => r == row,
    }
}

/// [C07] does the erase remove the tail of row r (so that the row stops being soft-wrapped)?
pub open spec fn erase_unwraps(mode: EraseMode, col: int, row: int, cols: int, r: int) -> bool {
    match mode {
        EraseMode::NextChars(n) => r == row && col + min_int(n as int, cols - col) == cols,
        EraseMode::FromCursorToEndOfView => r >= row,
        EraseMode::FromStartOfViewToCursor => r < row,
        EraseMode::WholeView => true,
        EraseMode::FromCursorToEndOfLine => r == row,
        EraseMode::FromStartOfLineToCursor => false,
        EraseMode::WholeLine => r == row,
    }
}

impl vstd::std_specs::core::IndexSpecImpl<usize> for Buffer {
    open spec fn index_req(&self, index: &usize) -> bool { self.rows <= self.lines@.len() && *index < self.rows }
}

impl vstd::std_specs::core::IndexSpecImpl<Range<usize>> for Buffer {
    open spec fn index_req(&self, index: &Range<usize>) -> bool {
        self.rows <= self.lines@.len() && index.start <= index.end <= self.rows
    }
}

impl vstd::std_specs::core::IndexSpecImpl<VisualPosition> for Buffer {
    open spec fn index_req(&self, index: &VisualPosition) -> bool {
        self.rows <= self.lines@.len() && index.1 < self.rows && index.0 < self.row(index.1 as int).cells@.len()
    }
}

/// [C07,C15] rows of the view that an erase can touch at all
pub open spec fn erase_touches_row(mode: EraseMode, row: int, r: int) -> bool {
    match mode {
        EraseMode::FromCursorToEndOfView => r >= row,
        EraseMode::FromStartOfViewToCursor => r <= row,
        EraseMode::WholeView => true,
        _ => r == row,
    }
}

/// [C07,C15] an erase leaves every row outside its row extent cell-for-cell unchanged
pub proof fn lemma_erased_rows_unchanged(f: Buffer, o: Buffer, col: int, row: int, mode: EraseMode, pen: Pen)
    requires
        f.erased(o, col, row, mode, pen),
        f.wf_geom(),
        o.wf_geom(),
    ensures
        forall|r: int| 0 <= r < o.rows && !erase_touches_row(mode, row, r) ==> (#[trigger] f.row(r)).cells@ == o.row(r).cells@,
{
    assert forall|r: int| 0 <= r < o.rows && !erase_touches_row(mode, row, r) implies (#[trigger] f.row(r)).cells@ == o.row(r).cells@ by {
        assert(f.row(r).cells@.len() == o.row(r).cells@.len());
        assert forall|c: int| 0 <= c < o.cols implies f.row(r).cells@[c] == o.row(r).cells@[c] by {
            assert(!erase_extent(mode, col, row, o.cols as int, c, r));
        }
        assert(f.row(r).cells@ =~= o.row(r).cells@);
    }
}

/// [C10] number of rows among `ls[0..k]` that end a logical line (rows without the wrap mark):
/// the index of the logical line that row `k` belongs to
pub open spec fn ends_before(ls: Seq<Line>, k: int) -> int
    decreases k,
{
    if k <= 0 { 0 } else { ends_before(ls, k - 1) + (if ls[k - 1].wrapped { 0int } else { 1int }) }
}

/// [C10] number of rows of its own logical line that precede row `k`
pub open spec fn run_before(ls: Seq<Line>, k: int) -> int
    decreases k,
{
    if k <= 0 || !ls[k - 1].wrapped { 0 } else { run_before(ls, k - 1) + 1 }
}

pub proof fn lemma_ends_mono(ls: Seq<Line>, j: int, k: int)
    requires
        0 <= j <= k,
    ensures
        ends_before(ls, j) <= ends_before(ls, k) <= ends_before(ls, j) + (k - j),
        0 <= run_before(ls, k) <= k,
    decreases k,
{
    if k > j {
        lemma_ends_mono(ls, j, k - 1);
    } else if k > 0 {
        lemma_ends_mono(ls, j - 1, k - 1);
    }
}

/// both counts look at the wrap marks below `k` only
pub proof fn lemma_ends_prefix(a: Seq<Line>, b: Seq<Line>, k: int)
    requires
        0 <= k <= a.len(),
        k <= b.len(),
        forall|i: int| 0 <= i < k ==> (#[trigger] a[i]).wrapped == b[i].wrapped,
    ensures
        ends_before(a, k) == ends_before(b, k),
        run_before(a, k) == run_before(b, k),
    decreases k,
{
    if k > 0 {
        lemma_ends_prefix(a, b, k - 1);
    }
}

/// a cursor logical position `(offset, line)` is represented by row `a`, column `col` at width `cols`
/// [C10]: same logical line, and the same character of it unless the line is shorter than that
#[verifier::opaque]
pub open spec fn at_logical(ls: Seq<Line>, cols: int, a: int, col: int, offset: int, line: int) -> bool {
    &&& 0 <= a < ls.len()
    &&& ends_before(ls, a) == line
    &&& run_before(ls, a) * cols <= offset
    &&& col == min_int(offset - run_before(ls, a) * cols, cols - 1)
    &&& (offset - run_before(ls, a) * cols < cols || !ls[a].wrapped)
}

/// [C10] the cells of logical line `j` found in rows `0..k`, in order
pub open spec fn lline(ls: Seq<Line>, j: int, k: int) -> Seq<Cell>
    decreases k,
{
    if k <= 0 { Seq::<Cell>::empty() } else { lline(ls, j, k - 1) + (if ends_before(ls, k - 1) == j { ls[k - 1].cells@ } else { Seq::<Cell>::empty() }) }
}

/// [C10] a logical line "up to trailing blanks": without its trailing default cells
pub open spec fn trimmed(s: Seq<Cell>) -> Seq<Cell> {
    s.take(s.len() - crate::line::trailing_defaults(s))
}

/// [C10] logical lines `0..n` of `a` and `b` are equal up to trailing blanks
#[verifier::opaque]
pub open spec fn same_logical_upto(a: Seq<Line>, b: Seq<Line>, n: int) -> bool {
    forall|j: int| 0 <= j < n ==> trimmed(#[trigger] lline(a, j, a.len() as int)) == trimmed(lline(b, j, b.len() as int))
}

/// logical line `j` is complete once a later logical line has begun
pub proof fn lemma_lline_done(ls: Seq<Line>, j: int, k: int, n: int)
    requires
        0 <= k <= n,
        ends_before(ls, k) > j,
    ensures
        lline(ls, j, n) == lline(ls, j, k),
    decreases n,
{
    if n > k {
        lemma_lline_done(ls, j, k, n - 1);
        lemma_ends_mono(ls, k, n - 1);
    }
}

/// it only depends on the rows below `k`
pub proof fn lemma_lline_prefix(a: Seq<Line>, b: Seq<Line>, j: int, k: int)
    requires
        0 <= k <= a.len(),
        k <= b.len(),
        forall|i: int| 0 <= i < k ==> (#[trigger] a[i]).wrapped == b[i].wrapped && a[i].cells@ == b[i].cells@,
    ensures
        lline(a, j, k) == lline(b, j, k),
    decreases k,
{
    if k > 0 {
        lemma_lline_prefix(a, b, j, k - 1);
        lemma_ends_prefix(a, b, k - 1);
    }
}

/// [C10] if `b` keeps the rows of `a` below row `k` then it keeps every logical line that ends below `k`
pub proof fn lemma_logical_kept(a: Seq<Line>, b: Seq<Line>, k: int)
    requires
        0 <= k <= a.len(),
        k <= b.len(),
        forall|i: int| 0 <= i < k ==> (#[trigger] a[i]).wrapped == b[i].wrapped && a[i].cells@ == b[i].cells@,
    ensures
        forall|j: int| 0 <= j < ends_before(a, k) ==> #[trigger] lline(b, j, b.len() as int) == lline(a, j, a.len() as int),
{
    lemma_ends_prefix(a, b, k);
    assert forall|j: int| 0 <= j < ends_before(a, k) implies #[trigger] lline(b, j, b.len() as int) == lline(a, j, a.len() as int) by {
        lemma_lline_done(a, j, k, a.len() as int);
        lemma_lline_done(b, j, k, b.len() as int);
        lemma_lline_prefix(a, b, j, k);
    }
}

/// [C09] the characters of a run of cells
pub open spec fn cells_chars(cs: Seq<Cell>) -> Seq<char> {
    Seq::new(cs.len(), |i: int| cs[i].0)
}

/// [C09] a text without its trailing U+0020 characters ("trailing spaces trimmed": spaces, not
/// U+00A0 or any other printable the input may end a line with)
pub open spec fn rtrim(s: Seq<char>) -> Seq<char>
    decreases s.len(),
{
    if s.len() > 0 && s.last() == ' ' { rtrim(s.drop_last()) } else { s }
}

/// [C09] no row below `k` belongs to a logical line that has not begun yet
pub proof fn lemma_lline_empty(ls: Seq<Line>, j: int, k: int)
    requires
        0 <= k,
        k == 0 || ends_before(ls, k - 1) < j,
    ensures
        lline(ls, j, k) == Seq::<Cell>::empty(),
    decreases k,
{
    if k > 0 {
        if k - 1 > 0 {
            lemma_ends_mono(ls, k - 2, k - 1);
        }
        lemma_lline_empty(ls, j, k - 1);
        assert(lline(ls, j, k) == lline(ls, j, k - 1) + Seq::<Cell>::empty());
    }
}


/// [C09] reading the characters off a run of cells distributes over concatenation
pub proof fn lemma_cells_chars_add(a: Seq<Cell>, b: Seq<Cell>)
    ensures
        cells_chars(a + b) =~= cells_chars(a) + cells_chars(b),
{
}

/// [C09] trimming one character is the trimming the property speaks of when that character is U+0020
pub proof fn lemma_rtrim_is_space(s: Seq<char>)
    ensures
        crate::rtrim_char(s, ' ') == rtrim(s),
    decreases s.len(),
{
    if s.len() > 0 && s.last() == ' ' {
        lemma_rtrim_is_space(s.drop_last());
    }
}

/// the characters of a String (a typed wrapper: fixes the element type of `Vec::new()` in invariants)
pub open spec fn str_view(s: String) -> Seq<char> { s@ }

/// [C09] what `text()` returns for a buffer whose last row is not soft-wrapped: one string per
/// logical line, each the line's characters with trailing U+0020 removed (`Buffer::text/E1,E2`)
pub open spec fn text_post(b: Buffer, r: Seq<String>) -> bool {
    &&& r.len() == ends_before(b.lines@, b.lines@.len() as int)
    &&& forall|j: int| 0 <= j < r.len() ==> (#[trigger] r[j])@ == rtrim(cells_chars(lline(b.lines@, j, b.lines@.len() as int)))
}
