/// abstract value of a row: its cells and its soft-wrap mark
pub struct LineV {
    pub cells: Seq<Cell>,
    pub wrapped: bool,
}

impl Line {
    pub open spec fn v(&self) -> LineV {
        LineV { cells: self.cells@, wrapped: self.wrapped }
    }
}

pub open spec fn blank_cells(cols: int, pen: Pen) -> Seq<Cell> {
    Seq::new(cols as nat, |i: int| Cell(' ', pen))
}

pub open spec fn blank_line(cols: int, pen: Pen) -> LineV {
    LineV { cells: blank_cells(cols, pen), wrapped: false }
}

/// [C07] cells `from..to` replaced by blanks in `pen`, everything else kept
pub open spec fn cleared(s: Seq<Cell>, from: int, to: int, pen: Pen) -> Seq<Cell> {
    Seq::new(s.len(), |i: int| if from <= i < to { Cell(' ', pen) } else { s[i] })
}

/// [C04,C07] `n` copies of `cell` inserted at `col`; the last `n` cells fall off the end
pub open spec fn inserted(s: Seq<Cell>, col: int, n: int, cell: Cell) -> Seq<Cell> {
    Seq::new(s.len(), |i: int| if i < col { s[i] } else if i < col + n { cell } else { s[i - n] })
}

/// [C07] `n` cells deleted at `col`; the row is refilled with blanks in `pen` from the right
pub open spec fn deleted(s: Seq<Cell>, col: int, n: int, pen: Pen) -> Seq<Cell> {
    Seq::new(s.len(), |i: int| if i < col { s[i] } else if i < s.len() - n { s[i + n] } else { Cell(' ', pen) })
}

impl vstd::std_specs::core::IndexSpecImpl<usize> for Line {
    open spec fn index_req(&self, index: &usize) -> bool { *index < self.cells@.len() }
}

impl vstd::std_specs::core::IndexSpecImpl<Range<usize>> for Line {
    open spec fn index_req(&self, index: &Range<usize>) -> bool { index.start <= index.end <= self.cells@.len() }
}
