/// abstract value of a row: its cells and its soft-wrap mark
pub struct LineV {
    pub cells: Seq<Cell>,
    pub wrapped: bool,
}

impl Line {
    pub open spec fn v(&self) -> LineV {
        LineV { cells: self.cells@, wrapped: self.wrapped }
    }
}

pub open spec fn blank_cells(cols: int, pen: Pen) -> Seq<Cell> {
    Seq::new(cols as nat, |i: int| Cell(' ', pen))
}

pub open spec fn blank_line(cols: int, pen: Pen) -> LineV {
    LineV { cells: blank_cells(cols, pen), wrapped: false }
}

/// [C07] cells `from..to` replaced by blanks in `pen`, everything else kept
pub open spec fn cleared(s: Seq<Cell>, from: int, to: int, pen: Pen) -> Seq<Cell> {
    Seq::new(s.len(), |i: int| if from <= i < to { Cell(' ', pen) } else { s[i] })
}

/// [C04,C07] `n` copies of `cell` inserted at `col`; the last `n` cells fall off the end
pub open spec fn inserted(s: Seq<Cell>, col: int, n: int, cell: Cell) -> Seq<Cell> {
    Seq::new(s.len(), |i: int| if i < col { s[i] } else if i < col + n { cell } else { s[i - n] })
}

/// [C07] `n` cells deleted at `col`; the row is refilled with blanks in `pen` from the right
pub open spec fn deleted(s: Seq<Cell>, col: int, n: int, pen: Pen) -> Seq<Cell> {
    Seq::new(s.len(), |i: int| if i < col { s[i] } else if i < s.len() - n { s[i + n] } else { Cell(' ', pen) })
}

impl vstd::std_specs::core::IndexSpecImpl<usize> for Line {
    open spec fn index_req(&self, index: &usize) -> bool { *index < self.cells@.len() }
}

impl vstd::std_specs::core::IndexSpecImpl<RangeFull> for Line {
    open spec fn index_req(&self, index: &RangeFull) -> bool { true }
}

impl vstd::std_specs::core::IndexSpecImpl<Range<usize>> for Line {
    open spec fn index_req(&self, index: &Range<usize>) -> bool { index.start <= index.end <= self.cells@.len() }
}

pub open spec fn cell_is_default(c: Cell) -> bool { c.0 == ' ' && c.1.is_default_spec() }

/// [C10] number of trailing default cells (blank, default pen) of a row
pub open spec fn trailing_defaults(c: Seq<Cell>) -> int
    decreases c.len(),
{
    if c.len() == 0 || !cell_is_default(c.last()) { 0 } else { 1 + trailing_defaults(c.drop_last()) }
}

pub proof fn lemma_trailing_defaults(c: Seq<Cell>)
    ensures
        0 <= trailing_defaults(c) <= c.len(),
        forall|i: int| c.len() - trailing_defaults(c) <= i < c.len() ==> cell_is_default(#[trigger] c[i]),
        trailing_defaults(c) < c.len() ==> !cell_is_default(c[c.len() - trailing_defaults(c) - 1]),
    decreases c.len(),
{
    if c.len() > 0 && cell_is_default(c.last()) {
        lemma_trailing_defaults(c.drop_last());
        assert forall|i: int| c.len() - trailing_defaults(c) <= i < c.len() implies cell_is_default(#[trigger] c[i]) by {
            if i < c.len() - 1 { assert(c[i] == c.drop_last()[i]); }
        }
        if trailing_defaults(c) < c.len() {
            assert(c[c.len() - trailing_defaults(c) - 1] == c.drop_last()[c.drop_last().len() - trailing_defaults(c.drop_last()) - 1]);
        }
    }
}

/// [C10] the cells `from..` of `c` may be dropped: only default cells, and only when the row ends its logical line
pub open spec fn droppable(c: Seq<Cell>, from: int, wrapped: bool) -> bool {
    forall|d: int| from <= d < c.len() ==> !wrapped && cell_is_default(#[trigger] c[d])
}

/// [C10] `Line::extend` on a row `a` that continues into the next row `b` (wrap mark `wb`), target
/// width `len`: `fin ++ rest` is `a ++ b` cell for cell; only trailing default cells of `b` may go,
/// and only when `b` ends the logical line (then default padding follows); the wrap marks chain on
pub open spec fn extend_joined(a: Seq<Cell>, b: Seq<Cell>, wb: bool, len: int, fin: Seq<Cell>, fin_wrapped: bool, done: bool, rest: Option<Line>) -> bool {
    let took = fin.len() - a.len();
    match rest {
        Some(r) => {
            &&& done && fin_wrapped && r.wrapped == wb
            &&& r.cells@.len() > 0
            &&& took == len - a.len()
            &&& took + r.cells@.len() <= b.len()
            &&& fin == a + b.take(took)
            &&& r.cells@ == b.subrange(took, took + r.cells@.len())
            &&& droppable(b, took + r.cells@.len(), wb)
        },
        None => if wb {
            took == b.len() && fin == a + b && fin_wrapped
        } else {
            let live = b.len() - trailing_defaults(b);
            done && !fin_wrapped && a.len() + live <= len && fin == a + b.take(live) + blank_cells(len - a.len() - live, Pen::default_spec())
        },
    }
}
