/// [C04] the VT100 special-graphics glyphs for 0x60..=0x7e, written out independently of
/// SPECIAL_GFX_CHARS (oracle: DEC VT100 user guide, table 3-9 / xterm ctlseqs).
pub open spec fn vt100_glyph(c: char) -> char {
    if c == '\u{60}' { '♦' } else if c == '\u{61}' { '▒' } else if c == '\u{62}' { '␉' }
    else if c == '\u{63}' { '␌' } else if c == '\u{64}' { '␍' } else if c == '\u{65}' { '␊' }
    else if c == '\u{66}' { '°' } else if c == '\u{67}' { '±' } else if c == '\u{68}' { '␤' }
    else if c == '\u{69}' { '␋' } else if c == '\u{6a}' { '┘' } else if c == '\u{6b}' { '┐' }
    else if c == '\u{6c}' { '┌' } else if c == '\u{6d}' { '└' } else if c == '\u{6e}' { '┼' }
    else if c == '\u{6f}' { '⎺' } else if c == '\u{70}' { '⎻' } else if c == '\u{71}' { '─' }
    else if c == '\u{72}' { '⎼' } else if c == '\u{73}' { '⎽' } else if c == '\u{74}' { '├' }
    else if c == '\u{75}' { '┤' } else if c == '\u{76}' { '┴' } else if c == '\u{77}' { '┬' }
    else if c == '\u{78}' { '│' } else if c == '\u{79}' { '≤' } else if c == '\u{7a}' { '≥' }
    else if c == '\u{7b}' { 'π' } else if c == '\u{7c}' { '≠' } else if c == '\u{7d}' { '£' }
    else if c == '\u{7e}' { '⋅' } else { c }
}

pub open spec fn translate_spec(cs: Charset, c: char) -> char {
    match cs {
        Charset::Ascii => c,
        Charset::Drawing => vt100_glyph(c),
    }
}

impl vstd::std_specs::cmp::PartialEqSpecImpl for Charset {
    open spec fn obeys_eq_spec() -> bool { true }
    open spec fn eq_spec(&self, other: &Charset) -> bool { *self == *other }
}
