// Trusted specifications of std / dependency functions used by avt and not (yet) specified
// by vstd.  Everything here is an ASSUMPTION (DESIGN.md section 7, item 2).
use std::alloc::Allocator;
use std::ops::{Index, IndexMut};
use std::slice::SliceIndex;
use vstd::slice::SliceIndexSpec;
use vstd::std_specs::cmp::PartialOrdSpec;

pub assume_specification<T: Clone>[ <[T]>::fill ](s: &mut [T], value: T)
    ensures
        final(s)@.len() == old(s)@.len(),
        forall|i: int| 0 <= i < final(s)@.len() ==> cloned::<T>(value, #[trigger] final(s)@[i]);

pub assume_specification<T>[ <[T]>::rotate_left ](s: &mut [T], mid: usize)
    requires
        mid <= old(s)@.len(),
    ensures
        final(s)@ == old(s)@.subrange(mid as int, old(s)@.len() as int) + old(s)@.subrange(0, mid as int);

pub assume_specification<T>[ <[T]>::rotate_right ](s: &mut [T], k: usize)
    requires
        k <= old(s)@.len(),
    ensures
        final(s)@ == old(s)@.subrange(old(s)@.len() - k, old(s)@.len() as int) + old(s)@.subrange(0, old(s)@.len() - k);

#[verifier::external_type_specification]
#[verifier::external_body]
#[verifier::reject_recursive_types(T)]
pub struct ExRgb<T>(rgb::Rgb<T>);

/// `char` is totally ordered by its scalar value (core's `impl PartialOrd for char`); vstd has
/// no `PartialOrdSpecImpl for char`, and the orphan rule forbids writing one here.
#[verifier::external_body]
pub proof fn axiom_char_ord()
    ensures
        <char as vstd::std_specs::cmp::PartialOrdSpec<char>>::obeys_partial_cmp_spec(),
        forall|a: char, b: char| #[trigger] a.partial_cmp_spec(&b) == Some(
            if (a as u32) < (b as u32) { core::cmp::Ordering::Less }
            else if a == b { core::cmp::Ordering::Equal } else { core::cmp::Ordering::Greater }),
{}

pub assume_specification[ <crate::line::Line as Clone>::clone ](l: &crate::line::Line) -> (r: crate::line::Line)
    ensures
        r.cells@ == l.cells@,
        r.wrapped == l.wrapped;

// `vec[range]` on the left of a method call: vstd specifies `<[T] as IndexMut<I>>::index_mut`
// but not the `Vec` impl, which simply forwards to the slice impl.
pub assume_specification<T, I: SliceIndex<[T]>, A: Allocator>[ <Vec<T, A> as IndexMut<I>>::index_mut ](
    v: &mut Vec<T, A>,
    index: I,
) -> (output: &mut <Vec<T, A> as Index<I>>::Output)
    ensures
        exists|os: &[T], fs: &[T]| os@ == old(v)@ && fs@ == final(v)@
            && #[trigger] index.index_mut_postcondition(os, fs, &*output, &*final(output));

/// ASSUMPTION (allocation): sizes and counts handed to the library are below 2^59.  A `Cell` is
/// at least 16 bytes, so a row of more cells, a screen of more rows or a scrollback of more
/// lines cannot be allocated (Vec would abort with capacity overflow / OOM first).
pub spec const MEM_MAX: usize = 0x0800_0000_0000_0000;

/// ASSUMPTION (allocation): the lines of a buffer are distinct heap allocations of `cols`
/// cells each, so their total cell count is bounded by the address space.
#[verifier::external_body]
pub proof fn axiom_lines_bound(b: &crate::buffer::Buffer)
    requires
        b.wf_geom(),
    ensures
        b.len() * b.cols <= MEM_MAX,
        b.len() <= MEM_MAX,
{}

global size_of usize == 8;

pub assume_specification<Idx: Clone>[ <core::ops::Range<Idx> as Clone>::clone ](r: &core::ops::Range<Idx>) -> (res: core::ops::Range<Idx>)
    ensures
        cloned::<Idx>(r.start, res.start),
        cloned::<Idx>(r.end, res.end);

// `self.lines = reflow(self.lines.drain(..), cols)` in Buffer::resize: the drained vector is
// overwritten immediately, so nothing about its final value is needed; the contract of
// `reflow` constrains its result independently of the items.
#[verifier::external_type_specification]
#[verifier::external_body]
#[verifier::reject_recursive_types(T)]
#[verifier::reject_recursive_types(A)]
pub struct ExDrain<'a, T: 'a, A: Allocator>(std::vec::Drain<'a, T, A>);

/// the items an iterator will yield, in order (uninterpreted; only `Vec::drain` says anything about it)
pub uninterp spec fn iter_items<I: Iterator>(it: I) -> Seq<I::Item>;

/// the elements of `v` selected by a range value (uninterpreted; `axiom_drain_full` fixes `..`)
pub uninterp spec fn drain_range<T, R>(v: Seq<T>, range: R) -> Seq<T>;

/// TRUSTED (std): `v.drain(range)` yields the elements of `v` in `range`, in order
pub assume_specification<T, A: Allocator, R: core::ops::RangeBounds<usize>>[ Vec::<T, A>::drain ](v: &mut Vec<T, A>, range: R) -> (d: std::vec::Drain<'_, T, A>)
    ensures
        iter_items(d) == drain_range(old(v)@, range),
;

/// TRUSTED (std): the full range selects everything
#[verifier::external_body]
pub proof fn axiom_drain_full<T>(v: Seq<T>)
    ensures
        drain_range(v, ..) == v,
{}

/// A `Vec<Line>` never holds more than isize::MAX / size_of::<Line>() (= 2^63 / 32) elements:
/// guaranteed by the allocation limit of Vec, stated here because vstd only knows `len <= usize::MAX`.
#[verifier::external_body]
pub proof fn axiom_vec_line_len(v: &Vec<crate::line::Line>)
    ensures
        v@.len() <= MEM_MAX,
{}

pub assume_specification<T: Default>[ core::mem::take ](dest: &mut T) -> (r: T)
    ensures
        r == *old(dest),
        call_ensures(T::default, (), *final(dest));

/// the items a by-reference iterable yields, dereferenced (uninterpreted; `axiom_items_ref_slice` fixes `&[T]`)
pub uninterp spec fn items_ref<T, I>(it: I) -> Seq<T>;

/// TRUSTED (std): `v.extend(iter)` over references appends copies of the items in order
pub assume_specification<'a, T: Copy + 'a, A: Allocator, I: IntoIterator<Item = &'a T>>[ <Vec<T, A> as Extend<&'a T>>::extend::<I> ](v: &mut Vec<T, A>, iter: I)
    ensures
        final(v)@ == old(v)@ + items_ref::<T, I>(iter),
;

/// TRUSTED (std): iterating `&[T]` yields its elements in order
#[verifier::external_body]
pub proof fn axiom_items_ref_slice<T>()
    ensures
        forall|s: &[T]| #[trigger] items_ref::<T, &[T]>(s) == s@,
{}

// std facts the pinned tree does not need, stated so that an edited tree that uses these common
// functions is still decided instead of being rejected by the front end
pub assume_specification[ char::is_ascii_control ](c: &char) -> (r: bool)
    ensures
        r == ((*c as u32) <= 0x1f || (*c as u32) == 0x7f),
;

pub assume_specification[ char::is_control ](c: char) -> (r: bool)
    ensures
        r == ((c as u32) <= 0x1f || (0x7f <= (c as u32) && (c as u32) <= 0x9f)),
;

pub assume_specification[ char::is_ascii ](c: &char) -> (r: bool)
    ensures
        r == ((*c as u32) <= 0x7f),
;

// ---- String / str facts used by Buffer::text (C09) --------------------------------------------
/// TRUSTED (std): `char::is_whitespace` is the Unicode White_Space property; only two facts about
/// it are used: U+0020 has it, and so does U+00A0 (which is why `trim_end` is not "trim spaces")
pub uninterp spec fn is_ws(c: char) -> bool;

#[verifier::external_body]
pub proof fn axiom_is_ws()
    ensures
        is_ws(' '),
        is_ws('\u{a0}'),
{}

/// a text without its trailing White_Space characters
pub open spec fn rtrim_ws(s: Seq<char>) -> Seq<char>
    decreases s.len(),
{
    if s.len() > 0 && is_ws(s.last()) { rtrim_ws(s.drop_last()) } else { s }
}

/// a text without its trailing occurrences of `c`
pub open spec fn rtrim_char(s: Seq<char>, c: char) -> Seq<char>
    decreases s.len(),
{
    if s.len() > 0 && s.last() == c { rtrim_char(s.drop_last(), c) } else { s }
}

pub assume_specification[ str::trim_end ](s: &str) -> (r: &str)
    ensures
        r@ == rtrim_ws(s@),
;

/// a text without its trailing matches of a pattern (uninterpreted; `axiom_rtrim_pat_char` fixes a `char` pattern)
pub uninterp spec fn rtrim_pat<P>(s: Seq<char>, pat: P) -> Seq<char>;

/// TRUSTED (std): `s.trim_end_matches(c)` for a `char` removes the trailing occurrences of `c`
#[verifier::external_body]
pub proof fn axiom_rtrim_pat_char()
    ensures
        forall|s: Seq<char>, c: char| #[trigger] rtrim_pat::<char>(s, c) == rtrim_char(s, c),
{}

pub assume_specification<P: core::str::pattern::Pattern>[ str::trim_end_matches::<P> ](s: &str, pat: P) -> (r: &str)
    where for<'a> P::Searcher<'a>: core::str::pattern::ReverseSearcher<'a>,
    ensures
        r@ == rtrim_pat::<P>(s@, pat),
;
