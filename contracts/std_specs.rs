// Trusted specifications of std / dependency functions used by avt and not (yet) specified
// by vstd.  Everything here is an ASSUMPTION (DESIGN.md section 7, item 2).
use std::alloc::Allocator;
use std::ops::{Index, IndexMut};
use std::slice::SliceIndex;
use vstd::slice::SliceIndexSpec;

pub assume_specification<T: Clone>[ <[T]>::fill ](s: &mut [T], value: T)
    ensures
        final(s)@.len() == old(s)@.len(),
        forall|i: int| 0 <= i < final(s)@.len() ==> cloned::<T>(value, #[trigger] final(s)@[i]);

pub assume_specification<T>[ <[T]>::rotate_left ](s: &mut [T], mid: usize)
    requires
        mid <= old(s)@.len(),
    ensures
        final(s)@ == old(s)@.subrange(mid as int, old(s)@.len() as int) + old(s)@.subrange(0, mid as int);

pub assume_specification<T>[ <[T]>::rotate_right ](s: &mut [T], k: usize)
    requires
        k <= old(s)@.len(),
    ensures
        final(s)@ == old(s)@.subrange(old(s)@.len() - k, old(s)@.len() as int) + old(s)@.subrange(0, old(s)@.len() - k);

#[verifier::external_type_specification]
#[verifier::external_body]
#[verifier::reject_recursive_types(T)]
pub struct ExRgb<T>(rgb::Rgb<T>);
