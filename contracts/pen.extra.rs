impl Pen {
    pub open spec fn default_spec() -> Pen {
        Pen { foreground: None, background: None, intensity: Intensity::Normal, attrs: 0 }
    }

    pub open spec fn is_default_spec(&self) -> bool {
        self.foreground is None && self.background is None && self.intensity == Intensity::Normal
            && !self.italic() && !self.underline() && !self.strikethrough() && !self.blink() && !self.inverse()
    }

    /// everything except the five attribute bits
    pub open spec fn same_colors_intensity(&self, o: Pen) -> bool {
        self.foreground == o.foreground && self.background == o.background && self.intensity == o.intensity
    }
    pub open spec fn italic(&self) -> bool { self.attrs & ITALIC_MASK != 0 }
    pub open spec fn underline(&self) -> bool { self.attrs & UNDERLINE_MASK != 0 }
    pub open spec fn strikethrough(&self) -> bool { self.attrs & STRIKETHROUGH_MASK != 0 }
    pub open spec fn blink(&self) -> bool { self.attrs & BLINK_MASK != 0 }
    pub open spec fn inverse(&self) -> bool { self.attrs & INVERSE_MASK != 0 }
    /// all five attributes of `self` equal those of `o`, except the one called `which`
    pub open spec fn same_attrs_except(&self, o: Pen, which: int) -> bool {
        &&& (which != 0 ==> self.italic() == o.italic())
        &&& (which != 1 ==> self.underline() == o.underline())
        &&& (which != 2 ==> self.strikethrough() == o.strikethrough())
        &&& (which != 3 ==> self.blink() == o.blink())
        &&& (which != 4 ==> self.inverse() == o.inverse())
    }
}

pub proof fn lemma_mask_set(a: u8, m: u8, k: u8)
    ensures
        m != 0 ==> (a | m) & m != 0,
        (a & !m) & m == 0,
        m & k == 0 ==> ((a | m) & k == a & k) && ((a & !m) & k == a & k),
{
    assert(m != 0 ==> (a | m) & m != 0) by (bit_vector);
    assert((a & !m) & m == 0) by (bit_vector);
    assert(m & k == 0 ==> ((a | m) & k == a & k) && ((a & !m) & k == a & k)) by (bit_vector);
}

/// [C08] the five attribute masks are non-zero and pairwise disjoint
pub proof fn lemma_masks_disjoint()
    ensures
        ITALIC_MASK != 0, UNDERLINE_MASK != 0, STRIKETHROUGH_MASK != 0, BLINK_MASK != 0, INVERSE_MASK != 0,
        ITALIC_MASK & UNDERLINE_MASK == 0, ITALIC_MASK & STRIKETHROUGH_MASK == 0, ITALIC_MASK & BLINK_MASK == 0,
        ITALIC_MASK & INVERSE_MASK == 0, UNDERLINE_MASK & STRIKETHROUGH_MASK == 0, UNDERLINE_MASK & BLINK_MASK == 0,
        UNDERLINE_MASK & INVERSE_MASK == 0, STRIKETHROUGH_MASK & BLINK_MASK == 0, STRIKETHROUGH_MASK & INVERSE_MASK == 0,
        BLINK_MASK & INVERSE_MASK == 0,
        UNDERLINE_MASK & ITALIC_MASK == 0, STRIKETHROUGH_MASK & ITALIC_MASK == 0, BLINK_MASK & ITALIC_MASK == 0,
        INVERSE_MASK & ITALIC_MASK == 0, STRIKETHROUGH_MASK & UNDERLINE_MASK == 0, BLINK_MASK & UNDERLINE_MASK == 0,
        INVERSE_MASK & UNDERLINE_MASK == 0, BLINK_MASK & STRIKETHROUGH_MASK == 0, INVERSE_MASK & STRIKETHROUGH_MASK == 0,
        INVERSE_MASK & BLINK_MASK == 0,
{
    assert(1u8 != 0 && (1u8 << 1) != 0 && (1u8 << 2) != 0 && (1u8 << 3) != 0 && (1u8 << 4) != 0) by (bit_vector);
    assert(forall|a: u8, b: u8| a & b == b & a) by (bit_vector);
    assert(ITALIC_MASK & UNDERLINE_MASK == 0 && ITALIC_MASK & STRIKETHROUGH_MASK == 0 && ITALIC_MASK & BLINK_MASK == 0
        && ITALIC_MASK & INVERSE_MASK == 0 && UNDERLINE_MASK & STRIKETHROUGH_MASK == 0 && UNDERLINE_MASK & BLINK_MASK == 0
        && UNDERLINE_MASK & INVERSE_MASK == 0 && STRIKETHROUGH_MASK & BLINK_MASK == 0 && STRIKETHROUGH_MASK & INVERSE_MASK == 0
        && BLINK_MASK & INVERSE_MASK == 0) by (compute);
}

impl vstd::std_specs::cmp::PartialEqSpecImpl for Intensity {
    open spec fn obeys_eq_spec() -> bool { true }
    open spec fn eq_spec(&self, other: &Intensity) -> bool { *self == *other }
}

/// [C08] effect of one SGR operation on the pen, written from the SGR table of the property
pub open spec fn apply_sgr(p: Pen, op: crate::parser::SgrOp) -> Pen {
    use crate::parser::SgrOp;
    match op {
        SgrOp::Reset => Pen::default_spec(),
        SgrOp::SetBoldIntensity => Pen { intensity: Intensity::Bold, ..p },
        SgrOp::SetFaintIntensity => Pen { intensity: Intensity::Faint, ..p },
        SgrOp::SetItalic => Pen { attrs: p.attrs | ITALIC_MASK, ..p },
        SgrOp::SetUnderline => Pen { attrs: p.attrs | UNDERLINE_MASK, ..p },
        SgrOp::SetBlink => Pen { attrs: p.attrs | BLINK_MASK, ..p },
        SgrOp::SetInverse => Pen { attrs: p.attrs | INVERSE_MASK, ..p },
        SgrOp::SetStrikethrough => Pen { attrs: p.attrs | STRIKETHROUGH_MASK, ..p },
        SgrOp::ResetIntensity => Pen { intensity: Intensity::Normal, ..p },
        SgrOp::ResetItalic => Pen { attrs: p.attrs & !ITALIC_MASK, ..p },
        SgrOp::ResetUnderline => Pen { attrs: p.attrs & !UNDERLINE_MASK, ..p },
        SgrOp::ResetBlink => Pen { attrs: p.attrs & !BLINK_MASK, ..p },
        SgrOp::ResetInverse => Pen { attrs: p.attrs & !INVERSE_MASK, ..p },
        SgrOp::ResetStrikethrough => Pen { attrs: p.attrs & !STRIKETHROUGH_MASK, ..p },
        SgrOp::SetForegroundColor(c) => Pen { foreground: Some(c), ..p },
        SgrOp::ResetForegroundColor => Pen { foreground: None, ..p },
        SgrOp::SetBackgroundColor(c) => Pen { background: Some(c), ..p },
        SgrOp::ResetBackgroundColor => Pen { background: None, ..p },
    }
}

/// [C08] the pen after the first `k` operations of `ops`, starting from `p` (left fold)
pub open spec fn sgr_upto(p: Pen, ops: Seq<crate::parser::SgrOp>, k: int) -> Pen
    decreases k,
{
    if k <= 0 { p } else { apply_sgr(sgr_upto(p, ops, k - 1), ops[k - 1]) }
}
