/// the rgb crate's `RGB8 { r, g, b }` constructor, uninterpreted (ASSUMPTION: injective,
/// fields as given); only equality of colours is ever needed
pub uninterp spec fn rgb_of(r: u8, g: u8, b: u8) -> RGB8;
