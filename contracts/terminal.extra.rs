use crate::line::{LineV, blank_line, blank_cells, cleared, inserted, deleted};
use crate::buffer::{min_int, max_int, unwrapped, erase_extent, erase_unwraps, erase_touches_row, lemma_erased_rows_unchanged, ScrollbackLimit, ends_before, run_before, at_logical, same_logical_upto, lline, trimmed};
use crate::tabs::{tabs_sorted, default_tabs, mult8_in, tabs_below, tabs_upto, lemma_tabs_below_bounds, lemma_tabs_below_prefix, lemma_mult8_in};
use crate::charset::translate_spec;
use crate::pen::{sgr_upto, apply_sgr};
use crate::MEM_MAX;

impl vstd::std_specs::cmp::PartialEqSpecImpl for BufferType {
    open spec fn obeys_eq_spec() -> bool { true }
    open spec fn eq_spec(&self, other: &BufferType) -> bool { *self == *other }
}

impl vstd::std_specs::cmp::PartialEqSpecImpl for CursorKeysMode {
    open spec fn obeys_eq_spec() -> bool { true }
    open spec fn eq_spec(&self, other: &CursorKeysMode) -> bool { *self == *other }
}

pub open spec fn limit_of(l: Option<usize>) -> Option<ScrollbackLimit> {
    match l {
        Some(l) => Some(ScrollbackLimit { soft: l, hard: (l + l / 10) as usize }),
        None => None,
    }
}

/// (opaque: a function of exactly the fields it constrains, so that it is preserved by
/// congruence whenever those fields are untouched)
#[verifier::opaque]
pub open spec fn tabs_ok(t: Seq<usize>, cols: usize) -> bool {
    &&& tabs_sorted(t)
    &&& forall|i: int| 0 <= i < t.len() ==> 0 < (#[trigger] t[i]) < cols
}

#[verifier::opaque]
pub open spec fn limits_ok(sl: Option<usize>, abt: BufferType, bl: Option<ScrollbackLimit>, obl: Option<ScrollbackLimit>) -> bool {
    &&& (sl matches Some(l) ==> l <= MEM_MAX)
    &&& match abt {
        BufferType::Primary => bl == limit_of(sl) && obl == limit_of(Some(0usize)),
        BufferType::Alternate => bl == limit_of(Some(0usize)) && obl == limit_of(sl),
    }
}

pub open spec fn saved_default() -> SavedCtx {
    SavedCtx { cursor_col: 0, cursor_row: 0, pen: Pen::default_spec(), origin_mode: false, auto_wrap_mode: true }
}

impl Terminal {
    /// [C18] stops strictly increasing, none at column 0, none at or beyond the width
    pub open spec fn tabs_wf(&self) -> bool { tabs_ok(self.tabs.0@, self.cols) }

    /// [C13] which buffer carries which scrollback limit
    pub open spec fn limits_wf(&self) -> bool {
        limits_ok(self.scrollback_limit, self.active_buffer_type, self.buffer.scrollback_limit, self.other_buffer.scrollback_limit)
    }

    /// everything in the invariant that does not depend on the active buffer having been
    /// brought to the terminal's geometry (holds also between a buffer switch and the reflow)
    pub open spec fn wf_static(&self) -> bool {
        &&& 1 <= self.cols <= MEM_MAX
        &&& 1 <= self.rows <= MEM_MAX
        &&& self.buffer.wf_geom()
        &&& self.buffer.trim_ok()
        &&& self.other_buffer.wf()
        &&& self.top_margin <= self.bottom_margin < self.rows
        &&& self.tabs_wf()
        &&& self.active_charset < 2
        &&& self.limits_wf()
    }

    /// [C02] the invariant that holds after every public call
    pub open spec fn wf(&self) -> bool {
        &&& self.wf_core()
        &&& !self.buffer.lines@[self.buffer.len() - 1].wrapped
    }

    /// `wf()` except that the last row may carry a soft-wrap mark (the moment between
    /// marking a row wrapped and scrolling it away in `print`)
    pub open spec fn wf_core(&self) -> bool {
        &&& self.wf_static()
        &&& self.buffer.cols == self.cols
        &&& self.buffer.rows == self.rows
        &&& self.cursor.row < self.rows
        &&& self.cursor.col <= self.cols
        &&& (self.pending_wrap <==> self.cursor.col == self.cols)
        &&& self.saved_ctx.cursor_col < self.cols
        &&& self.saved_ctx.cursor_row < self.rows
        &&& (self.active_buffer_type == BufferType::Alternate ==>
                self.alternate_saved_ctx.cursor_col < self.other_buffer.cols
                && self.alternate_saved_ctx.cursor_row < self.other_buffer.rows)
        &&& self.dirty_lines.0@.len() == self.rows
    }

    /// state in which `reflow()` may be called: between a buffer switch (and an optional
    /// restore_cursor) or a geometry change and the reflow that repairs the invariant
    pub open spec fn pre_reflow(&self) -> bool {
        &&& self.wf_static()
        &&& !self.buffer.lines@[self.buffer.len() - 1].wrapped
        &&& self.cursor.col <= MEM_MAX
        &&& self.cursor.row <= MEM_MAX
        &&& (self.buffer.cols == self.cols ==> (self.cursor.row < self.rows || self.cursor.row < self.buffer.rows)
                && self.cursor.col <= self.cols && (self.pending_wrap <==> self.cursor.col == self.cols))
        &&& (self.active_buffer_type == BufferType::Alternate ==>
                self.alternate_saved_ctx.cursor_col < self.other_buffer.cols
                && self.alternate_saved_ctx.cursor_row < self.other_buffer.rows)
    }

    pub open spec fn dirty(&self, r: int) -> bool { self.dirty_lines.0@[r] }

    /// [C15] the flags of `o` plus those of rows r0..r1
    pub open spec fn dirty_added(&self, o: Terminal, r0: int, r1: int) -> bool {
        &&& self.dirty_lines.0@.len() == o.dirty_lines.0@.len()
        &&& forall|r: int| 0 <= r < o.dirty_lines.0@.len() ==> (#[trigger] self.dirty_lines.0@[r]) == (o.dirty_lines.0@[r] || r0 <= r < r1)
    }

    /// [C06] the rows IL/DL act on: from the cursor down to the bottom margin, or to the last
    /// row when the cursor is below the region
    pub open spec fn il_end(&self) -> int {
        if self.cursor.row <= self.bottom_margin { self.bottom_margin + 1 } else { self.rows as int }
    }

    /// [C15] every view row that differs from `o`'s is flagged, and no flag is lost
    pub open spec fn dirty_sound(&self, o: Terminal) -> bool {
        &&& self.dirty_lines.0@.len() == o.dirty_lines.0@.len()
        &&& forall|r: int| 0 <= r < o.rows ==> (#[trigger] self.dirty_lines.0@[r]) || (!o.dirty_lines.0@[r] && self.buffer.row(r).cells@ == o.buffer.row(r).cells@)
    }

    /// [C05] where an upward move of n from `row` ends
    pub open spec fn up_target(&self, n: int) -> int {
        if self.cursor.row < self.top_margin { max_int(self.cursor.row - n, 0) } else { max_int(self.cursor.row - n, self.top_margin as int) }
    }

    /// [C05] where a downward move of n from `row` ends
    pub open spec fn down_target(&self, n: int) -> int {
        if self.cursor.row > self.bottom_margin { min_int(self.cursor.row + n, self.rows - 1) } else { min_int(self.cursor.row + n, self.bottom_margin as int) }
    }

    // ---- printing (C04) -------------------------------------------------------------------
    pub open spec fn print_cell(&self, ch: char) -> Cell {
        Cell(translate_spec(self.charsets[self.active_charset as int], ch), self.pen)
    }

    /// does this print first perform the deferred wrap?
    pub open spec fn print_wraps(&self) -> bool { self.auto_wrap_mode && self.pending_wrap }

    /// the wrap happens on the bottom margin: the region scrolls by one
    pub open spec fn print_scrolls(&self) -> bool { self.print_wraps() && self.cursor.row == self.bottom_margin }

    /// column / row where the character lands
    pub open spec fn print_col1(&self) -> int { if self.print_wraps() { 0 } else { self.cursor.col as int } }

    pub open spec fn print_row1(&self) -> int {
        if self.print_wraps() && self.cursor.row != self.bottom_margin && self.cursor.row < self.rows - 1 {
            self.cursor.row + 1
        } else {
            self.cursor.row as int
        }
    }

    /// overwrite in the last column, insert or overwrite elsewhere
    pub open spec fn print_cells(&self, cells: Seq<Cell>, col1: int, cell: Cell) -> Seq<Cell> {
        if col1 + 1 >= self.cols { cells.update(self.cols - 1, cell) }
        else if self.insert_mode { inserted(cells, col1, 1, cell) }
        else { cells.update(col1, cell) }
    }

    /// view row r (other than the cursor's) after the one-line region scroll caused by a wrap
    /// on the bottom margin; the row the cursor left keeps its cells
    pub open spec fn print_scrolled_row(&self, r: int) -> LineV {
        let top = self.top_margin as int;
        let bottom = self.bottom_margin as int;
        if top <= r < bottom {
            if r + 1 == bottom { LineV { cells: self.buffer.row(bottom).cells@, wrapped: bottom == self.rows - 1 } }
            else { self.buffer.row(r + 1).v() }
        } else if r == top - 1 {
            unwrapped(self.buffer.row(r).v())
        } else {
            self.buffer.row(r).v()
        }
    }

    /// the column the cursor is shown in (the wrap-pending position counts as the last column)
    pub open spec fn vis_col(&self) -> int { min_int(self.cursor.col as int, self.cols - 1) }
}

/// [C03,C05] "missing or 0 means default"
pub open spec fn param_or(value: u16, default: int) -> int { if value == 0 { default } else { value as int } }

/// [C15] dirty-soundness composes: flags are only ever added within a call, so a row that is
/// unflagged at the end was unflagged and unchanged at every intermediate point
pub proof fn lemma_dirty_sound_trans(o: Terminal, m: Terminal, f: Terminal)
    requires
        m.dirty_sound(o),
        f.dirty_sound(m),
        m.rows == o.rows,
    ensures
        f.dirty_sound(o),
{
    assert forall|r: int| 0 <= r < o.rows implies (#[trigger] f.dirty_lines.0@[r]) || (!o.dirty_lines.0@[r] && f.buffer.row(r).cells@ == o.buffer.row(r).cells@) by {
        assert(f.dirty_lines.0@[r] || (!m.dirty_lines.0@[r] && f.buffer.row(r).cells@ == m.buffer.row(r).cells@));
        assert(m.dirty_lines.0@[r] || (!o.dirty_lines.0@[r] && m.buffer.row(r).cells@ == o.buffer.row(r).cells@));
    }
}

/// [C15] an operation that touches neither the active buffer nor the flags is dirty-sound
pub proof fn lemma_dirty_sound_same(o: Terminal, f: Terminal)
    requires
        f.buffer == o.buffer,
        f.dirty_lines == o.dirty_lines,
    ensures
        f.dirty_sound(o),
{
    assert forall|r: int| 0 <= r < o.rows implies (#[trigger] f.dirty_lines.0@[r]) || (!o.dirty_lines.0@[r] && f.buffer.row(r).cells@ == o.buffer.row(r).cells@) by {
        assert(f.dirty_lines.0@[r] == o.dirty_lines.0@[r]);
    }
}

/// [C04,KF] FINDING F1 (fails on the pinned tree, listed in known_findings.txt): when the deferred
/// wrap happens on a bottom margin that is not the last row of the screen, the row the cursor
/// left must be marked soft-wrapped (C04: "marks the row it left as soft-wrapped").
/// Buffer::scroll_up clears the mark of the last row of a range that ends above the last row.
pub proof fn finding_c04_wrap_mark_inner(o: Terminal, f: Terminal, ch: char)
    requires
        o.wf(),
        post_print(o, f, ch),
        o.print_scrolls(),
        o.bottom_margin < o.rows - 1,
        o.top_margin < o.bottom_margin,
    ensures
        f.buffer.row(o.bottom_margin - 1).wrapped,
{
}

/// [C02] the invariant does not mention the pen
pub proof fn lemma_wf_frame_pen(o: Terminal, f: Terminal)
    requires
        o.wf(),
        f.frame_pen(o),
    ensures
        f.wf(),
{
}

/// [C02] the invariant does not mention the mode flags
pub proof fn lemma_wf_frame_modes(o: Terminal, f: Terminal)
    requires
        o.wf(),
        f.frame_modes(o),
    ensures
        f.wf(),
{
}

impl Terminal {
    /// [C19] every field is what `Terminal::new((cols, rows), limit)` produces
    pub open spec fn is_fresh(&self, cols: int, rows: int, limit: Option<usize>) -> bool {
        &&& self.cols == cols
        &&& self.rows == rows
        &&& self.buffer.is_fresh(cols, rows, limit, Pen::default_spec())
        &&& self.other_buffer.is_fresh(cols, rows, Some(0usize), Pen::default_spec())
        &&& self.active_buffer_type == BufferType::Primary
        &&& self.scrollback_limit == limit
        &&& self.cursor == (Cursor { col: 0, row: 0, visible: true })
        &&& self.pen == Pen::default_spec()
        &&& self.charsets[0] == Charset::Ascii
        &&& self.charsets[1] == Charset::Ascii
        &&& self.active_charset == 0
        &&& self.tabs.0@ == default_tabs(cols)
        &&& !self.insert_mode
        &&& !self.origin_mode
        &&& self.auto_wrap_mode
        &&& !self.new_line_mode
        &&& self.cursor_keys_mode == CursorKeysMode::Normal
        &&& !self.pending_wrap
        &&& self.top_margin == 0
        &&& self.bottom_margin == rows - 1
        &&& self.saved_ctx == saved_default()
        &&& self.alternate_saved_ctx == saved_default()
        &&& self.dirty_lines.0@.len() == rows
        &&& (forall|r: int| 0 <= r < rows ==> #[trigger] self.dirty_lines.0@[r])
    }
}

/// [C18] the default stops are strictly increasing and lie in 1..cols
pub proof fn lemma_default_tabs_wf(cols: int)
    requires
        1 <= cols <= MEM_MAX,
    ensures
        tabs_sorted(default_tabs(cols)),
        forall|i: int| 0 <= i < default_tabs(cols).len() ==> 0 < (#[trigger] default_tabs(cols)[i]) < cols,
{
    reveal(tabs_sorted);
}


/// [C15] when every row is flagged the report is trivially sound
pub proof fn lemma_dirty_sound_all(o: Terminal, f: Terminal)
    requires
        f.dirty_lines.0@.len() == o.dirty_lines.0@.len(),
        forall|r: int| 0 <= r < o.rows ==> #[trigger] f.dirty_lines.0@[r],
    ensures
        f.dirty_sound(o),
{
}

/// [C15] reflexivity
pub proof fn lemma_dirty_sound_refl(o: Terminal)
    ensures
        o.dirty_sound(o),
{
}

/// [C03] what `execute(fun)` does: exactly the postcondition of the control function that `fun` names
pub open spec fn exec_post(o: Terminal, f: Terminal, fun: Function) -> bool {
    match fun {
        Function::Bs => post_bs(o, f),
        Function::Cbt(n) => post_cbt(o, f, n),
        Function::Cha(n) => post_cha(o, f, n),
        Function::Cht(n) => post_cht(o, f, n),
        Function::Cnl(n) => post_cnl(o, f, n),
        Function::Cpl(n) => post_cpl(o, f, n),
        Function::Cr => post_cr(o, f),
        Function::Ctc(op) => post_ctc(o, f, op),
        Function::Cub(n) => post_cub(o, f, n),
        Function::Cud(n) => post_cud(o, f, n),
        Function::Cuf(n) => post_cuf(o, f, n),
        Function::Cup(row, col) => post_cup(o, f, row, col),
        Function::Cuu(n) => post_cuu(o, f, n),
        Function::Dch(n) => post_dch(o, f, n),
        Function::Decaln => post_decaln(o, f),
        Function::Decrc => post_rc(o, f),
        Function::Decrst(modes) => post_decrst(o, f, modes),
        Function::Decsc => post_sc(o, f),
        Function::Decset(modes) => post_decset(o, f, modes),
        Function::Decstbm(top, bottom) => post_decstbm(o, f, top, bottom),
        Function::Decstr => post_decstr(o, f),
        Function::Dl(n) => post_dl(o, f, n),
        Function::Ech(n) => post_ech(o, f, n),
        Function::Ed(scope) => post_ed(o, f, scope),
        Function::El(scope) => post_el(o, f, scope),
        Function::G1d4(cs) => post_g1d4(o, f, cs),
        Function::Gzd4(cs) => post_gzd4(o, f, cs),
        Function::Ht => post_ht(o, f),
        Function::Hts => post_hts(o, f),
        Function::Ich(n) => post_ich(o, f, n),
        Function::Il(n) => post_il(o, f, n),
        Function::Lf => post_lf(o, f),
        Function::Nel => post_nel(o, f),
        Function::Print(ch) => post_print(o, f, ch),
        Function::Rep(n) => post_rep(o, f, n),
        Function::Ri => post_ri(o, f),
        Function::Ris => post_ris(o, f),
        Function::Rm(modes) => post_rm(o, f, modes),
        Function::Scorc => post_rc(o, f),
        Function::Scosc => post_sc(o, f),
        Function::Sd(n) => post_sd(o, f, n),
        Function::Sgr(ops) => post_sgr(o, f, ops),
        Function::Si => post_si(o, f),
        Function::Sm(modes) => post_sm(o, f, modes),
        Function::So => post_so(o, f),
        Function::Su(n) => post_su(o, f, n),
        Function::Tbc(scope) => post_tbc(o, f, scope),
        Function::Vpa(n) => post_vpa(o, f, n),
        Function::Vpr(n) => post_vpr(o, f, n),
        Function::Xtwinops(op) => post_xtwinops(o, f, op),
    }
}

/// [C05,C16,C17] what one DECSET mode does (CSI ? Pm h), in terms of the helper postconditions
#[verifier::opaque]
pub open spec fn decset_one(o: Terminal, f: Terminal, m: DecMode) -> bool {
    match m {
        DecMode::CursorKeys => f == (Terminal { cursor_keys_mode: CursorKeysMode::Application, ..o }),
        DecMode::Origin => post_move_cursor_home(Terminal { origin_mode: true, ..o }, f),
        DecMode::AutoWrap => f == (Terminal { auto_wrap_mode: true, ..o }),
        DecMode::TextCursorEnable => f == (Terminal { cursor: Cursor { visible: true, ..o.cursor }, ..o }),
        DecMode::AltScreenBuffer => exists|a: Terminal| #[trigger] post_switch_to_alternate_buffer(o, a) && post_reflow(a, f),
        DecMode::SaveCursor => post_save_cursor(o, f),
        DecMode::SaveCursorAltScreenBuffer => exists|a: Terminal, b: Terminal| #[trigger] post_save_cursor(o, a) && #[trigger] post_switch_to_alternate_buffer(a, b) && post_reflow(b, f),
    }
}

/// [C05,C16,C17] what one DECRST mode does (CSI ? Pm l)
#[verifier::opaque]
pub open spec fn decrst_one(o: Terminal, f: Terminal, m: DecMode) -> bool {
    match m {
        DecMode::CursorKeys => f == (Terminal { cursor_keys_mode: CursorKeysMode::Normal, ..o }),
        DecMode::Origin => post_move_cursor_home(Terminal { origin_mode: false, ..o }, f),
        DecMode::AutoWrap => f == (Terminal { auto_wrap_mode: false, ..o }),
        DecMode::TextCursorEnable => f == (Terminal { cursor: Cursor { visible: false, ..o.cursor }, ..o }),
        DecMode::AltScreenBuffer => exists|a: Terminal| #[trigger] post_switch_to_primary_buffer(o, a) && post_reflow(a, f),
        DecMode::SaveCursor => post_restore_cursor(o, f),
        DecMode::SaveCursorAltScreenBuffer => exists|a: Terminal, b: Terminal| #[trigger] post_switch_to_primary_buffer(o, a) && #[trigger] post_restore_cursor(a, b) && post_reflow(b, f),
    }
}

/// [C01,C02] after `switch_to_primary_buffer(); restore_cursor();` (the ?1049l sequence) the
/// terminal is in the state `reflow()` expects: the restored cursor lies inside the geometry of
/// the buffer that has just become active again
pub proof fn lemma_pre_reflow_1049l(o: Terminal, a: Terminal, b: Terminal)
    requires
        o.wf(),
        post_switch_to_primary_buffer(o, a),
        post_restore_cursor(a, b),
    ensures
        b.pre_reflow(),
{
}

// GENERATED-FRAMES-BEGIN (gen_frames.py)
impl Terminal {
    /// frame: every group except {buffer, dirty} is exactly what it was in `o`
    pub open spec fn frame_buffer_dirty(&self, o: Terminal) -> bool {
        &&& self.cursor.col == o.cursor.col && self.cursor.row == o.cursor.row && self.pending_wrap == o.pending_wrap
        &&& self.pen == o.pen
        &&& self.tabs == o.tabs
        &&& self.top_margin == o.top_margin && self.bottom_margin == o.bottom_margin
        &&& self.saved_ctx == o.saved_ctx
        &&& self.insert_mode == o.insert_mode && self.origin_mode == o.origin_mode && self.auto_wrap_mode == o.auto_wrap_mode && self.new_line_mode == o.new_line_mode && self.cursor_keys_mode == o.cursor_keys_mode && self.cursor.visible == o.cursor.visible
        &&& self.charsets == o.charsets && self.active_charset == o.active_charset
        &&& self.other_buffer == o.other_buffer && self.alternate_saved_ctx == o.alternate_saved_ctx && self.active_buffer_type == o.active_buffer_type
        &&& self.cols == o.cols && self.rows == o.rows
        &&& self.scrollback_limit == o.scrollback_limit
        &&& self.xtwinops == o.xtwinops
    }
    /// frame: every group except {buffer, dirty, saved, other} is exactly what it was in `o`
    pub open spec fn frame_buffer_dirty_saved_other(&self, o: Terminal) -> bool {
        &&& self.cursor.col == o.cursor.col && self.cursor.row == o.cursor.row && self.pending_wrap == o.pending_wrap
        &&& self.pen == o.pen
        &&& self.tabs == o.tabs
        &&& self.top_margin == o.top_margin && self.bottom_margin == o.bottom_margin
        &&& self.insert_mode == o.insert_mode && self.origin_mode == o.origin_mode && self.auto_wrap_mode == o.auto_wrap_mode && self.new_line_mode == o.new_line_mode && self.cursor_keys_mode == o.cursor_keys_mode && self.cursor.visible == o.cursor.visible
        &&& self.charsets == o.charsets && self.active_charset == o.active_charset
        &&& self.cols == o.cols && self.rows == o.rows
        &&& self.scrollback_limit == o.scrollback_limit
        &&& self.xtwinops == o.xtwinops
    }
    /// frame: every group except {charsets} is exactly what it was in `o`
    pub open spec fn frame_charsets(&self, o: Terminal) -> bool {
        &&& self.cursor.col == o.cursor.col && self.cursor.row == o.cursor.row && self.pending_wrap == o.pending_wrap
        &&& self.buffer == o.buffer
        &&& self.dirty_lines == o.dirty_lines
        &&& self.pen == o.pen
        &&& self.tabs == o.tabs
        &&& self.top_margin == o.top_margin && self.bottom_margin == o.bottom_margin
        &&& self.saved_ctx == o.saved_ctx
        &&& self.insert_mode == o.insert_mode && self.origin_mode == o.origin_mode && self.auto_wrap_mode == o.auto_wrap_mode && self.new_line_mode == o.new_line_mode && self.cursor_keys_mode == o.cursor_keys_mode && self.cursor.visible == o.cursor.visible
        &&& self.other_buffer == o.other_buffer && self.alternate_saved_ctx == o.alternate_saved_ctx && self.active_buffer_type == o.active_buffer_type
        &&& self.cols == o.cols && self.rows == o.rows
        &&& self.scrollback_limit == o.scrollback_limit
        &&& self.xtwinops == o.xtwinops
    }
    /// frame: every group except {cursor} is exactly what it was in `o`
    pub open spec fn frame_cursor(&self, o: Terminal) -> bool {
        &&& self.buffer == o.buffer
        &&& self.dirty_lines == o.dirty_lines
        &&& self.pen == o.pen
        &&& self.tabs == o.tabs
        &&& self.top_margin == o.top_margin && self.bottom_margin == o.bottom_margin
        &&& self.saved_ctx == o.saved_ctx
        &&& self.insert_mode == o.insert_mode && self.origin_mode == o.origin_mode && self.auto_wrap_mode == o.auto_wrap_mode && self.new_line_mode == o.new_line_mode && self.cursor_keys_mode == o.cursor_keys_mode && self.cursor.visible == o.cursor.visible
        &&& self.charsets == o.charsets && self.active_charset == o.active_charset
        &&& self.other_buffer == o.other_buffer && self.alternate_saved_ctx == o.alternate_saved_ctx && self.active_buffer_type == o.active_buffer_type
        &&& self.cols == o.cols && self.rows == o.rows
        &&& self.scrollback_limit == o.scrollback_limit
        &&& self.xtwinops == o.xtwinops
    }
    /// frame: every group except {cursor, buffer, dirty} is exactly what it was in `o`
    pub open spec fn frame_cursor_buffer_dirty(&self, o: Terminal) -> bool {
        &&& self.pen == o.pen
        &&& self.tabs == o.tabs
        &&& self.top_margin == o.top_margin && self.bottom_margin == o.bottom_margin
        &&& self.saved_ctx == o.saved_ctx
        &&& self.insert_mode == o.insert_mode && self.origin_mode == o.origin_mode && self.auto_wrap_mode == o.auto_wrap_mode && self.new_line_mode == o.new_line_mode && self.cursor_keys_mode == o.cursor_keys_mode && self.cursor.visible == o.cursor.visible
        &&& self.charsets == o.charsets && self.active_charset == o.active_charset
        &&& self.other_buffer == o.other_buffer && self.alternate_saved_ctx == o.alternate_saved_ctx && self.active_buffer_type == o.active_buffer_type
        &&& self.cols == o.cols && self.rows == o.rows
        &&& self.scrollback_limit == o.scrollback_limit
        &&& self.xtwinops == o.xtwinops
    }
    /// frame: every group except {cursor, buffer, dirty, saved} is exactly what it was in `o`
    pub open spec fn frame_cursor_buffer_dirty_saved(&self, o: Terminal) -> bool {
        &&& self.pen == o.pen
        &&& self.tabs == o.tabs
        &&& self.top_margin == o.top_margin && self.bottom_margin == o.bottom_margin
        &&& self.insert_mode == o.insert_mode && self.origin_mode == o.origin_mode && self.auto_wrap_mode == o.auto_wrap_mode && self.new_line_mode == o.new_line_mode && self.cursor_keys_mode == o.cursor_keys_mode && self.cursor.visible == o.cursor.visible
        &&& self.charsets == o.charsets && self.active_charset == o.active_charset
        &&& self.other_buffer == o.other_buffer && self.alternate_saved_ctx == o.alternate_saved_ctx && self.active_buffer_type == o.active_buffer_type
        &&& self.cols == o.cols && self.rows == o.rows
        &&& self.scrollback_limit == o.scrollback_limit
        &&& self.xtwinops == o.xtwinops
    }
    /// frame: every group except {cursor, buffer, dirty, tabs, margins, saved, geom} is exactly what it was in `o`
    pub open spec fn frame_cursor_buffer_dirty_tabs_margins_saved_geom(&self, o: Terminal) -> bool {
        &&& self.pen == o.pen
        &&& self.insert_mode == o.insert_mode && self.origin_mode == o.origin_mode && self.auto_wrap_mode == o.auto_wrap_mode && self.new_line_mode == o.new_line_mode && self.cursor_keys_mode == o.cursor_keys_mode && self.cursor.visible == o.cursor.visible
        &&& self.charsets == o.charsets && self.active_charset == o.active_charset
        &&& self.other_buffer == o.other_buffer && self.alternate_saved_ctx == o.alternate_saved_ctx && self.active_buffer_type == o.active_buffer_type
        &&& self.scrollback_limit == o.scrollback_limit
        &&& self.xtwinops == o.xtwinops
    }
    /// frame: every group except {cursor, margins} is exactly what it was in `o`
    pub open spec fn frame_cursor_margins(&self, o: Terminal) -> bool {
        &&& self.buffer == o.buffer
        &&& self.dirty_lines == o.dirty_lines
        &&& self.pen == o.pen
        &&& self.tabs == o.tabs
        &&& self.saved_ctx == o.saved_ctx
        &&& self.insert_mode == o.insert_mode && self.origin_mode == o.origin_mode && self.auto_wrap_mode == o.auto_wrap_mode && self.new_line_mode == o.new_line_mode && self.cursor_keys_mode == o.cursor_keys_mode && self.cursor.visible == o.cursor.visible
        &&& self.charsets == o.charsets && self.active_charset == o.active_charset
        &&& self.other_buffer == o.other_buffer && self.alternate_saved_ctx == o.alternate_saved_ctx && self.active_buffer_type == o.active_buffer_type
        &&& self.cols == o.cols && self.rows == o.rows
        &&& self.scrollback_limit == o.scrollback_limit
        &&& self.xtwinops == o.xtwinops
    }
    /// frame: every group except {cursor, pen, modes} is exactly what it was in `o`
    pub open spec fn frame_cursor_pen_modes(&self, o: Terminal) -> bool {
        &&& self.buffer == o.buffer
        &&& self.dirty_lines == o.dirty_lines
        &&& self.tabs == o.tabs
        &&& self.top_margin == o.top_margin && self.bottom_margin == o.bottom_margin
        &&& self.saved_ctx == o.saved_ctx
        &&& self.charsets == o.charsets && self.active_charset == o.active_charset
        &&& self.other_buffer == o.other_buffer && self.alternate_saved_ctx == o.alternate_saved_ctx && self.active_buffer_type == o.active_buffer_type
        &&& self.cols == o.cols && self.rows == o.rows
        &&& self.scrollback_limit == o.scrollback_limit
        &&& self.xtwinops == o.xtwinops
    }
    /// frame: every group except {dirty} is exactly what it was in `o`
    pub open spec fn frame_dirty(&self, o: Terminal) -> bool {
        &&& self.cursor.col == o.cursor.col && self.cursor.row == o.cursor.row && self.pending_wrap == o.pending_wrap
        &&& self.buffer == o.buffer
        &&& self.pen == o.pen
        &&& self.tabs == o.tabs
        &&& self.top_margin == o.top_margin && self.bottom_margin == o.bottom_margin
        &&& self.saved_ctx == o.saved_ctx
        &&& self.insert_mode == o.insert_mode && self.origin_mode == o.origin_mode && self.auto_wrap_mode == o.auto_wrap_mode && self.new_line_mode == o.new_line_mode && self.cursor_keys_mode == o.cursor_keys_mode && self.cursor.visible == o.cursor.visible
        &&& self.charsets == o.charsets && self.active_charset == o.active_charset
        &&& self.other_buffer == o.other_buffer && self.alternate_saved_ctx == o.alternate_saved_ctx && self.active_buffer_type == o.active_buffer_type
        &&& self.cols == o.cols && self.rows == o.rows
        &&& self.scrollback_limit == o.scrollback_limit
        &&& self.xtwinops == o.xtwinops
    }
    /// frame: every group except {modes} is exactly what it was in `o`
    pub open spec fn frame_modes(&self, o: Terminal) -> bool {
        &&& self.cursor.col == o.cursor.col && self.cursor.row == o.cursor.row && self.pending_wrap == o.pending_wrap
        &&& self.buffer == o.buffer
        &&& self.dirty_lines == o.dirty_lines
        &&& self.pen == o.pen
        &&& self.tabs == o.tabs
        &&& self.top_margin == o.top_margin && self.bottom_margin == o.bottom_margin
        &&& self.saved_ctx == o.saved_ctx
        &&& self.charsets == o.charsets && self.active_charset == o.active_charset
        &&& self.other_buffer == o.other_buffer && self.alternate_saved_ctx == o.alternate_saved_ctx && self.active_buffer_type == o.active_buffer_type
        &&& self.cols == o.cols && self.rows == o.rows
        &&& self.scrollback_limit == o.scrollback_limit
        &&& self.xtwinops == o.xtwinops
    }
    /// frame: every group except {pen} is exactly what it was in `o`
    pub open spec fn frame_pen(&self, o: Terminal) -> bool {
        &&& self.cursor.col == o.cursor.col && self.cursor.row == o.cursor.row && self.pending_wrap == o.pending_wrap
        &&& self.buffer == o.buffer
        &&& self.dirty_lines == o.dirty_lines
        &&& self.tabs == o.tabs
        &&& self.top_margin == o.top_margin && self.bottom_margin == o.bottom_margin
        &&& self.saved_ctx == o.saved_ctx
        &&& self.insert_mode == o.insert_mode && self.origin_mode == o.origin_mode && self.auto_wrap_mode == o.auto_wrap_mode && self.new_line_mode == o.new_line_mode && self.cursor_keys_mode == o.cursor_keys_mode && self.cursor.visible == o.cursor.visible
        &&& self.charsets == o.charsets && self.active_charset == o.active_charset
        &&& self.other_buffer == o.other_buffer && self.alternate_saved_ctx == o.alternate_saved_ctx && self.active_buffer_type == o.active_buffer_type
        &&& self.cols == o.cols && self.rows == o.rows
        &&& self.scrollback_limit == o.scrollback_limit
        &&& self.xtwinops == o.xtwinops
    }
    /// frame: every group except {pen, margins, saved, modes, charsets} is exactly what it was in `o`
    pub open spec fn frame_pen_margins_saved_modes_charsets(&self, o: Terminal) -> bool {
        &&& self.cursor.col == o.cursor.col && self.cursor.row == o.cursor.row && self.pending_wrap == o.pending_wrap
        &&& self.buffer == o.buffer
        &&& self.dirty_lines == o.dirty_lines
        &&& self.tabs == o.tabs
        &&& self.other_buffer == o.other_buffer && self.alternate_saved_ctx == o.alternate_saved_ctx && self.active_buffer_type == o.active_buffer_type
        &&& self.cols == o.cols && self.rows == o.rows
        &&& self.scrollback_limit == o.scrollback_limit
        &&& self.xtwinops == o.xtwinops
    }
    /// frame: every group except {saved} is exactly what it was in `o`
    pub open spec fn frame_saved(&self, o: Terminal) -> bool {
        &&& self.cursor.col == o.cursor.col && self.cursor.row == o.cursor.row && self.pending_wrap == o.pending_wrap
        &&& self.buffer == o.buffer
        &&& self.dirty_lines == o.dirty_lines
        &&& self.pen == o.pen
        &&& self.tabs == o.tabs
        &&& self.top_margin == o.top_margin && self.bottom_margin == o.bottom_margin
        &&& self.insert_mode == o.insert_mode && self.origin_mode == o.origin_mode && self.auto_wrap_mode == o.auto_wrap_mode && self.new_line_mode == o.new_line_mode && self.cursor_keys_mode == o.cursor_keys_mode && self.cursor.visible == o.cursor.visible
        &&& self.charsets == o.charsets && self.active_charset == o.active_charset
        &&& self.other_buffer == o.other_buffer && self.alternate_saved_ctx == o.alternate_saved_ctx && self.active_buffer_type == o.active_buffer_type
        &&& self.cols == o.cols && self.rows == o.rows
        &&& self.scrollback_limit == o.scrollback_limit
        &&& self.xtwinops == o.xtwinops
    }
    /// frame: every group except {tabs} is exactly what it was in `o`
    pub open spec fn frame_tabs(&self, o: Terminal) -> bool {
        &&& self.cursor.col == o.cursor.col && self.cursor.row == o.cursor.row && self.pending_wrap == o.pending_wrap
        &&& self.buffer == o.buffer
        &&& self.dirty_lines == o.dirty_lines
        &&& self.pen == o.pen
        &&& self.top_margin == o.top_margin && self.bottom_margin == o.bottom_margin
        &&& self.saved_ctx == o.saved_ctx
        &&& self.insert_mode == o.insert_mode && self.origin_mode == o.origin_mode && self.auto_wrap_mode == o.auto_wrap_mode && self.new_line_mode == o.new_line_mode && self.cursor_keys_mode == o.cursor_keys_mode && self.cursor.visible == o.cursor.visible
        &&& self.charsets == o.charsets && self.active_charset == o.active_charset
        &&& self.other_buffer == o.other_buffer && self.alternate_saved_ctx == o.alternate_saved_ctx && self.active_buffer_type == o.active_buffer_type
        &&& self.cols == o.cols && self.rows == o.rows
        &&& self.scrollback_limit == o.scrollback_limit
        &&& self.xtwinops == o.xtwinops
    }
}
// GENERATED-FRAMES-END
