"""A small Rust lexer: enough to find items, signatures, bodies, loops and statements
without ever applying a regular expression to code.  Tokens keep their exact source text
and offsets, so a file re-emitted from its tokens is byte-identical (self-test)."""
from dataclasses import dataclass

WS, COMMENT, STR, CHAR, LIFETIME, NUM, IDENT, PUNCT = range(8)
KIND_NAMES = ["ws", "comment", "str", "char", "lifetime", "num", "ident", "punct"]


@dataclass
class Tok:
    kind: int
    text: str
    pos: int  # offset in source

    @property
    def end(self):
        return self.pos + len(self.text)

    def sig(self):
        return self.kind not in (WS, COMMENT)


def _is_ident_start(c):
    return c == "_" or c.isalpha()


def _is_ident_cont(c):
    return c == "_" or c.isalnum()


def lex(src):
    toks = []
    i, n = 0, len(src)
    while i < n:
        c = src[i]
        start = i
        if c.isspace():
            while i < n and src[i].isspace():
                i += 1
            toks.append(Tok(WS, src[start:i], start))
        elif src.startswith("//", i):
            while i < n and src[i] != "\n":
                i += 1
            toks.append(Tok(COMMENT, src[start:i], start))
        elif src.startswith("/*", i):
            depth = 0
            while i < n:
                if src.startswith("/*", i):
                    depth += 1
                    i += 2
                elif src.startswith("*/", i):
                    depth -= 1
                    i += 2
                    if depth == 0:
                        break
                else:
                    i += 1
            toks.append(Tok(COMMENT, src[start:i], start))
        elif c == '"' or (c in "br" and _raw_or_byte_string_at(src, i)):
            i = _lex_string(src, i)
            toks.append(Tok(STR, src[start:i], start))
        elif c == "b" and i + 1 < n and src[i + 1] == "'":
            i = _lex_char(src, i + 1)
            toks.append(Tok(CHAR, src[start:i], start))
        elif c == "'":
            # char literal or lifetime
            if i + 1 < n and src[i + 1] == "\\":
                i = _lex_char(src, i)
                toks.append(Tok(CHAR, src[start:i], start))
            elif i + 2 < n and src[i + 2] == "'":
                i += 3
                toks.append(Tok(CHAR, src[start:i], start))
            else:
                i += 1
                while i < n and _is_ident_cont(src[i]):
                    i += 1
                toks.append(Tok(LIFETIME, src[start:i], start))
        elif c.isdigit():
            while i < n and (_is_ident_cont(src[i])):
                i += 1
            # fractional part (not a range `..`, not a method call)
            if i + 1 < n and src[i] == "." and src[i + 1].isdigit():
                i += 1
                while i < n and _is_ident_cont(src[i]):
                    i += 1
            toks.append(Tok(NUM, src[start:i], start))
        elif _is_ident_start(c):
            while i < n and _is_ident_cont(src[i]):
                i += 1
            toks.append(Tok(IDENT, src[start:i], start))
        else:
            i += 1
            toks.append(Tok(PUNCT, c, start))
    return toks


def _raw_or_byte_string_at(src, i):
    j = i
    if src[j] == "b":
        j += 1
    if j < len(src) and src[j] == "r":
        j += 1
        while j < len(src) and src[j] == "#":
            j += 1
    return j < len(src) and src[j] == '"' and j > i


def _lex_string(src, i):
    n = len(src)
    if src[i] == "b":
        i += 1
    if src[i] == "r":
        i += 1
        hashes = 0
        while src[i] == "#":
            hashes += 1
            i += 1
        i += 1  # opening quote
        close = '"' + "#" * hashes
        j = src.find(close, i)
        return (j + len(close)) if j >= 0 else n
    i += 1
    while i < n:
        if src[i] == "\\":
            i += 2
        elif src[i] == '"':
            return i + 1
        else:
            i += 1
    return n


def _lex_char(src, i):
    # src[i] == "'"
    n = len(src)
    i += 1
    while i < n:
        if src[i] == "\\":
            i += 2
        elif src[i] == "'":
            return i + 1
        else:
            i += 1
    return n


def untokenize(toks):
    return "".join(t.text for t in toks)


OPEN = {"(": ")", "[": "]", "{": "}"}
CLOSE = {")": "(", "]": "[", "}": "{"}


def match_close(toks, i):
    """toks[i] is an opening bracket token; return index of its matching closer."""
    depth = 0
    j = i
    while j < len(toks):
        t = toks[j]
        if t.kind == PUNCT:
            if t.text in OPEN:
                depth += 1
            elif t.text in CLOSE:
                depth -= 1
                if depth == 0:
                    return j
        j += 1
    raise ValueError("unbalanced bracket at offset %d" % toks[i].pos)


def next_sig(toks, i):
    """index of next significant token at or after i (len(toks) if none)"""
    while i < len(toks) and not toks[i].sig():
        i += 1
    return i


def prev_sig(toks, i):
    """index of previous significant token at or before i (-1 if none)"""
    while i >= 0 and not toks[i].sig():
        i -= 1
    return i


def norm(toks):
    """normalised text of a token slice: significant tokens joined by single spaces"""
    return " ".join(t.text for t in toks if t.sig())


if __name__ == "__main__":
    import sys
    ok = True
    for p in sys.argv[1:]:
        s = open(p, encoding="utf-8").read()
        if untokenize(lex(s)) != s:
            print("ROUNDTRIP-FAIL", p)
            ok = False
    print("lexer round-trip", "ok" if ok else "FAILED", len(sys.argv) - 1, "files")
    sys.exit(0 if ok else 1)
