#!/usr/bin/env python3
"""Run Verus on the woven copy of /repo and turn its diagnostics into named obligations.

Library used by check.py; also a developer CLI:
    ./verus_run.py [--module M ...] [--fn NAME] [--keep DIR] [--repo /repo]
prints one line per failed obligation."""
import json
import os
import re
import shutil
import subprocess
import sys
import tempfile
import time

VERIF = os.path.dirname(os.path.abspath(__file__))
sys.path.insert(0, VERIF)
import weave  # noqa: E402

DEPS = os.path.join(VERIF, ".cache", "deps")
VERUS_TOOLCHAIN = "1.98.1-x86_64-unknown-linux-gnu"

# messages that mean "an obligation was not discharged" (anything else at level=error is a
# front-end / tool problem => undecided, never an alarm)
FAIL_PREFIXES = (
    "expression simplifies to false",      # `assert(..) by (compute)` evaluated to false: refuted, not unknown
    "postcondition not satisfied",
    "precondition not satisfied",
    "precondition not met",
    "possible arithmetic underflow/overflow",
    "possible division by zero",
    "possible bit shift underflow/overflow",
    "assertion failed",
    "assertion failure",
    "invariant not satisfied",
    "decreases not satisfied",
    "loop invariant not",
    "unreachable",
    "reached unreachable",
    "cannot prove termination",
    "could not prove termination",
    "panic",
    "constructed value may fail to meet its declared type invariant",
    "value may be out of range",
    "possible overflow",
    "index out of bounds",
    "possible",
    "failed",
    "requires not satisfied",
    "unable to prove",
    "ensures not satisfied",
)
UNDECIDED_MARKERS = ("Resource limit", "rlimit", "timed out", "while checking this function")


def ensure_deps(repo, log=print):
    """rgb / unicode-width rlibs built with the Verus toolchain; cached by Cargo.lock hash."""
    import hashlib
    lp = os.path.join(repo, "Cargo.lock")
    if not os.path.exists(lp):
        lp = "/repo/Cargo.lock"   # snapshots of HEAD lack the (untracked) lock file
    lock = open(lp, "rb").read()
    key = hashlib.sha256(lock).hexdigest()[:16]
    stamp = os.path.join(DEPS, "STAMP")
    if os.path.exists(stamp) and open(stamp).read().strip() == key and _dep("rgb") and _dep("unicode_width"):
        return
    log("building dependency rlibs with the Verus toolchain (one-off)")
    tmp = tempfile.mkdtemp(prefix="avt-deps-")
    try:
        dst = os.path.join(tmp, "repo")
        shutil.copytree(repo, dst, ignore=shutil.ignore_patterns("target", ".git"))
        if not os.path.exists(os.path.join(dst, "Cargo.lock")):
            shutil.copy(lp, os.path.join(dst, "Cargo.lock"))
        env = dict(os.environ, CARGO_NET_OFFLINE="true", CARGO_TARGET_DIR=os.path.join(tmp, "target"))
        r = subprocess.run(["cargo", "+" + VERUS_TOOLCHAIN, "build", "--offline", "--lib"], cwd=dst, env=env,
                           stdout=subprocess.PIPE, stderr=subprocess.STDOUT, text=True)
        if r.returncode != 0:
            raise RuntimeError("dependency build failed:\n" + r.stdout[-3000:])
        os.makedirs(DEPS, exist_ok=True)
        for f in os.listdir(DEPS):
            os.remove(os.path.join(DEPS, f))
        d = os.path.join(tmp, "target", "debug", "deps")
        for f in os.listdir(d):
            if f.startswith(("librgb-", "libunicode_width-", "libbytemuck-")) and f.endswith((".rlib", ".rmeta")):
                shutil.copy(os.path.join(d, f), DEPS)
        open(stamp, "w").write(key)
    finally:
        shutil.rmtree(tmp, ignore_errors=True)


def _dep(name):
    if not os.path.isdir(DEPS):
        return None
    for f in sorted(os.listdir(DEPS)):
        if f.startswith("lib%s-" % name) and f.endswith(".rlib"):
            return os.path.join(DEPS, f)
    return None


def verus_cmd(extra):
    return ["verus", "src/lib.rs", "--crate-type=lib", "--crate-name", "avt", "--edition=2021",
            "-L", "dependency=" + DEPS, "--extern", "rgb=" + _dep("rgb"),
            "--extern", "unicode_width=" + _dep("unicode_width")] + list(extra)


class Result:
    def __init__(self):
        self.failures = []     # dicts: obligation, fn, clause, message, tags, file, line, rendered
        self.undecided = []    # dicts: reason, rendered
        self.functions = {}    # verus function name -> {time_ms, rlimit, success}
        self.verified = 0
        self.errors = 0
        self.anchors = None
        self.wall_s = 0.0
        self.cmd = ""
        self.smt_ms = 0
        self.raw_ok = False
        self.weave_error = None
        self.workdir = None
        self.vacuity = None


def locate_fn(anchors, file, line):
    best = None
    for f in anchors["functions"]:
        if f["file"] == file and f["line_start"] <= line <= f["line_end"]:
            if best is None or (f["line_end"] - f["line_start"]) < (best["line_end"] - best["line_start"]):
                best = f
    return best


def calls_new_function(anchors, fn, woven_dir):
    """name of a function without contract that is new w.r.t. the recorded baseline and is called
    (textually) inside the function `fn` of the woven tree, else None"""
    new = (anchors.get("normalisations") or {}).get("new_functions") or []
    if not new or fn is None or not woven_dir:
        return None
    try:
        lines = open(os.path.join(woven_dir, fn["file"]), encoding="utf-8").read().split("\n")
    except OSError:
        return None
    if "%s::%s" % (fn["file"], fn["key"]) in new:
        return fn["key"].split("::")[-1]      # the new function itself: it has no precondition either
    body = "\n".join(lines[fn["line_start"] - 1:fn["line_end"]])
    for u in new:
        short = u.split("::")[-1]
        if re.search(r"(?<![A-Za-z0-9_])%s\s*\(" % re.escape(short), body) and not re.search(r"fn\s+%s\s*[<(]" % re.escape(short), body):
            return short
    return None


def locate_clause(anchors, file, l0, l1, exact=False):
    for c in anchors["clauses"]:
        if c["file"] == file and c["line_start"] <= l0 and l1 <= c["line_end"]:
            return c
    if exact:
        return None
    for c in anchors["clauses"]:
        if c["file"] == file and not (l1 < c["line_start"] or l0 > c["line_end"]):
            return c
    return None


def all_spans(d):
    out = list(d.get("spans", []))
    for ch in d.get("children", []):
        out.extend(all_spans(ch))
    return out


REAL_MODULES = ["buffer", "cell", "charset", "color", "line", "parser", "pen", "tabs", "terminal",
                "terminal::cursor", "terminal::dirty_lines", "util", "vt"]


def run(repo="/repo", modules=None, function=None, keep=None, rlimit=30, threads=16,
        multiple_errors=10, contracts_dir=None, extra_args=(), timeout=3600, vacuity=False):
    res = Result()
    t0 = time.time()
    ensure_deps(repo, log=lambda m: print(m, file=sys.stderr))
    work = keep or tempfile.mkdtemp(prefix="avt-weave-")
    res.workdir = work
    try:
        out = os.path.join(work, "woven")
        if os.path.exists(out):
            shutil.rmtree(out)
        try:
            anchors = weave.weave_tree(repo, out, contracts_dir=contracts_dir or weave.CONTRACTS)
        except weave.WeaveError as e:
            res.weave_error = str(e)
            res.undecided.append({"reason": "weave: " + str(e), "rendered": ""})
            return res
        res.anchors = anchors
        json.dump(anchors, open(os.path.join(out, "anchors.json"), "w"), indent=1)
        args = ["--smt-option", "smt.dt_lazy_splits=2",
                "--output-json", "--time-expanded", "--error-format=json",
                "--multiple-errors", str(multiple_errors), "--num-threads", str(threads)]
        if rlimit:
            args += ["--rlimit", str(rlimit)]
        if function:
            args += ["--verify-only-module", modules[0], "--verify-function", function]
        else:
            lem = []
            ld = os.path.join(contracts_dir or weave.CONTRACTS, "lemmas")
            if os.path.isdir(ld):
                lem = ["verif_" + f[:-3] for f in sorted(os.listdir(ld)) if f.endswith(".rs")]
            for m in (modules or (REAL_MODULES + lem)):
                args += ["--verify-module", m]
            if not modules:
                args += ["--verify-root"]
        args += list(extra_args)
        cmd = verus_cmd(args)
        res.cmd = " ".join(cmd)
        vp = None
        if vacuity:
            vcmd = verus_cmd(["--smt-option", "smt.dt_lazy_splits=2", "--output-json", "--error-format=json",
                              "--multiple-errors", "1", "--num-threads", "4", "--verify-only-module", "verif_vacuity"])
            vp = subprocess.Popen(vcmd, cwd=out, stdout=subprocess.PIPE, stderr=subprocess.PIPE, text=True)
        try:
            p = subprocess.run(cmd, cwd=out, stdout=subprocess.PIPE, stderr=subprocess.PIPE, text=True,
                               timeout=timeout)
        except subprocess.TimeoutExpired:
            res.undecided.append({"reason": "verus timed out after %ds" % timeout, "rendered": ""})
            if vp:
                vp.kill()
            return res
        parse(res, p.stdout, p.stderr, anchors, out)
        if vp:
            try:
                vo, ve = vp.communicate(timeout=timeout)
                i = vo.find("{")
                vj = json.loads(vo[i:]) if i >= 0 else {}
                vr = vj.get("verification-results", {})
                n = anchors.get("vacuity_probes", 0)
                res.vacuity = {"probes": n, "failed_as_expected": vr.get("errors", 0), "verified_vacuous": vr.get("verified", 0)}
                if vr.get("encountered-vir-error") or (vr.get("errors", 0) + vr.get("verified", 0)) != n:
                    res.undecided.append({"reason": "vacuity module did not run cleanly (%s)" % json.dumps(vr), "rendered": ve[-2000:]})
                elif vr.get("verified", 0) != 0:
                    res.undecided.append({"reason": "VACUOUS precondition: %d probe(s) verified `false`" % vr.get("verified", 0), "rendered": ve[-2000:]})
            except Exception as e:
                res.undecided.append({"reason": "vacuity run failed: %s" % e, "rendered": ""})
        if keep:
            open(os.path.join(work, "verus.stdout"), "w").write(p.stdout)
            open(os.path.join(work, "verus.stderr"), "w").write(p.stderr)
    finally:
        res.wall_s = time.time() - t0
        if not keep:
            shutil.rmtree(work, ignore_errors=True)
    return res


def parse(res, stdout, stderr, anchors, woven_dir=None):
    # stdout: one JSON object (possibly preceded by junk lines)
    js = None
    i = stdout.find("{")
    if i >= 0:
        try:
            js = json.loads(stdout[i:])
        except Exception:
            js = None
    if js is None:
        res.undecided.append({"reason": "verus produced no JSON summary", "rendered": (stdout + stderr)[-3000:]})
    else:
        vr = js.get("verification-results", {})
        res.verified = vr.get("verified", 0)
        res.errors = vr.get("errors", 0)
        res.raw_ok = not vr.get("encountered-error", True)
        if vr.get("encountered-vir-error"):
            # a refuted `by (compute)` assertion is reported through the same channel as front-end
            # rejections; it is a failed obligation (handled below), everything else is undecided
            msgs = []
            for line in stderr.split("\n"):
                if line.strip().startswith("{"):
                    try:
                        d = json.loads(line)
                    except Exception:
                        continue
                    if d.get("level") == "error" and not d.get("message", "").startswith("aborting due to"):
                        msgs.append(d.get("message", ""))
            others = [m for m in msgs if not m.lower().startswith(FAIL_PREFIXES) and not any(mk in m for mk in UNDECIDED_MARKERS)]
            if others or not msgs:
                res.undecided.append({"reason": "verus front-end (VIR) error", "rendered": ""})
        smt = js.get("times-ms", {}).get("smt", {})
        res.smt_ms = smt.get("total", 0)
        for m in smt.get("smt-run-module-times", []):
            for f in m.get("function-breakdown", []):
                res.functions[f["function"]] = {"time_ms": f.get("time", 0), "rlimit": f.get("rlimit", 0),
                                                "success": f.get("success", False), "mode": f.get("mode:", "")}
    seen = set()
    for line in stderr.split("\n"):
        line = line.strip()
        if not line.startswith("{"):
            # debugging chatter of verus (dbg! lines) is ignored
            continue
        try:
            d = json.loads(line)
        except Exception:
            continue
        if d.get("level") != "error":
            continue
        msg = d.get("message", "")
        if msg.startswith("aborting due to"):
            continue
        spans = all_spans(d)
        prim = [s for s in spans if s.get("is_primary")]
        ours = [s for s in spans if s["file_name"].startswith("src/")]
        rendered = d.get("rendered") or msg
        if any(mk in msg for mk in UNDECIDED_MARKERS):
            fn = None
            for s in prim + ours:
                if s["file_name"].startswith("src/"):
                    fn = locate_fn(anchors, s["file_name"], s["line_start"])
                    if fn:
                        break
            u = {"reason": "resource limit: " + msg + (" in " + fn["key"] if fn else ""), "rendered": rendered}
            if fn:
                # only the properties whose obligations live in that function are left undecided
                tg = set(fn.get("tags") or [])
                for c in anchors["clauses"]:
                    if c["owner"] == fn["key"]:
                        tg.update(t for t in c["tags"] if t != "KF")
                u["tags"] = sorted(tg) or ["C01"]
            res.undecided.append(u)
            continue
        if d.get("code") is not None or not msg.lower().startswith(FAIL_PREFIXES):
            res.undecided.append({"reason": "front-end: " + msg, "rendered": rendered})
            continue
        # function = function containing the primary span (or any of our spans)
        fn = None
        pfile, pline = None, None
        for s in prim + ours:
            if s["file_name"].startswith("src/"):
                f = locate_fn(anchors, s["file_name"], s["line_start"])
                if f is not None:
                    fn, pfile, pline = f, s["file_name"], s["line_start"]
                    break
        clause = None
        labelled = [sp for sp in spans if sp["file_name"].startswith("src/") and (sp.get("label") or "").startswith("failed")]
        for sp in labelled:
            c = locate_clause(anchors, sp["file_name"], sp["line_start"], sp["line_end"], exact=True)
            if c is not None:
                clause = c
                break
        if clause is None:
            for sp in prim:
                if sp["file_name"].startswith("src/"):
                    c = locate_clause(anchors, sp["file_name"], sp["line_start"], sp["line_end"], exact=True)
                    if c is not None:
                        clause = c
                        break
        fkey = fn["key"] if fn else "?"
        if clause is not None:
            if clause["kind"] == "requires" and clause["owner"] != fkey:
                name = "%s/call:%s/%s" % (fkey, clause["owner"], clause["id"])
            elif clause["kind"] == "invariant":
                name = "%s/loop%d/%s" % (clause["owner"], clause["loop"], clause["id"])
            else:
                name = "%s/%s" % (clause["owner"], clause["id"])
            tags = list(clause["tags"])
        else:
            txt = ""
            for s in prim:
                if s.get("text"):
                    t = s["text"][0]
                    txt = t["text"][t["highlight_start"] - 1:t["highlight_end"] - 1].strip()
                    break
            name = fkey if fkey.startswith("lemma:") else "%s/safety@\"%s\"" % (fkey, txt[:60])
            tags = []
        if not tags and clause is not None and clause["kind"] == "hint":
            # a proof hint that no longer holds leaves every obligation of its function undischarged
            # (everything after a failed assertion is assumed): attribute it to all their tags
            u = set(fn["tags"]) if (fn and fn.get("tags")) else set()
            for c in anchors["clauses"]:
                if c["owner"] == clause["owner"] and c["kind"] in ("ensures", "invariant"):
                    u.update(t for t in c["tags"] if t != "KF")
            tags = sorted(u)
        if not tags:
            tags = list(fn["tags"]) if (fn and fn.get("tags")) else ["C01"]
        if clause is not None and clause["kind"] == "requires" and re.search(r"\.(wf|wf_core|wf_geom|wf_static|pre_reflow)\(\)", clause.get("text") or ""):
            # the invariant not holding where a callee needs it is a C01 / C02 matter whatever the caller is about
            tags = sorted(set(tags) | {"C01", "C02"})
        key = (name, msg)
        if key in seen:
            continue
        seen.add(key)
        nf = calls_new_function(anchors, fn, woven_dir)
        if nf:
            # modular verification: the failing function calls a function that did not exist when the
            # contracts were written and therefore has no postcondition - a missing contract, not a verdict
            res.undecided.append({"reason": "%s: obligation %s not discharged, but the function is or calls the new function `%s`, which has no contract" % (fkey, name, nf),
                                  "rendered": rendered, "tags": tags})
            continue
        res.failures.append({"obligation": name, "fn": fkey, "clause": clause, "message": msg, "tags": tags,
                             "file": pfile, "line": pline, "rendered": rendered})


def main():
    import argparse
    ap = argparse.ArgumentParser()
    ap.add_argument("--repo", default="/repo")
    ap.add_argument("--module", action="append")
    ap.add_argument("--fn")
    ap.add_argument("--keep")
    ap.add_argument("--rlimit", type=int)
    ap.add_argument("-v", action="store_true")
    ap.add_argument("--me", type=int, default=10)
    args = ap.parse_args()
    r = run(args.repo, modules=args.module, function=args.fn, keep=args.keep, rlimit=args.rlimit,
            multiple_errors=args.me)
    for u in r.undecided:
        print("UNDECIDED", u["reason"])
        if args.v:
            print(u["rendered"])
    for f in r.failures:
        print("FAILED %-60s [%s] %s (%s:%s)" % (f["obligation"], ",".join(f["tags"]), f["message"], f["file"], f["line"]))
        if args.v:
            print(f["rendered"])
    slow = sorted(r.functions.items(), key=lambda kv: -kv[1]["time_ms"])[:8]
    print("verified=%d errors=%d smt=%dms wall=%.1fs  slowest: %s" % (
        r.verified, r.errors, r.smt_ms, r.wall_s,
        ", ".join("%s %dms" % (k.split("::", 1)[1], v["time_ms"]) for k, v in slow)))


if __name__ == "__main__":
    main()
