#!/usr/bin/env python3
"""Mechanical mutation probe: how strong are the contracts?

For every function whose body Verus verifies, small token-level mutations are generated
(literal +1, comparison / arithmetic / boolean operator swaps, min<->max, true<->false, deletion
of a `self...;` statement).  Each mutant is written to a scratch copy of /repo (never /repo
itself), the contracts are woven in and Verus is run on the mutated function only.  Verdicts:

  killed     a named obligation fails (the contract notices the change)
  invalid    the mutant does not get through the front end / loses an anchor (exit-2 class)
  survived   Verus is quiet -> the existing test suite is run on the mutant:
               tests-kill   the suite notices (not a gap the brief cares about)
               GAP          compiles, suite passes, no obligation fails: either an equivalent
                            mutant or a clause that is too weak - listed for inspection

usage: mutgen.py [--n 200] [--seed 1] [--files src/buffer.rs,...] [--jobs 4] [--fn SUBSTR]
"""
import argparse
import json
import os
import random
import shutil
import subprocess
import sys
import tempfile
import time
from multiprocessing import Pool

VERIF = os.path.dirname(os.path.abspath(__file__))
sys.path.insert(0, VERIF)
import rustlex  # noqa: E402
import weave  # noqa: E402
from rustlex import IDENT, NUM, PUNCT  # noqa: E402

REPO = "/repo"


def fn_items(toks):
    """[(key, open_tok, close_tok)] for every fn with a body (impl methods and free fns)"""
    out = []

    def walk(items, prefix):
        for it in items:
            if it.cfg_test:
                continue
            if it.kind == "fn" and it.open >= 0:
                out.append(((prefix + "::" if prefix else "") + it.name, it.open, it.close))
            elif it.kind == "impl":
                walk(it.children, it.header)
            elif it.kind == "mod":
                walk(it.children, prefix)
    walk(weave.parse_items(toks, 0, len(toks)), "")
    return out


def sigs(toks, lo, hi):
    return [i for i in range(lo, hi + 1) if toks[i].sig()]


SWAPS = {}
for a_, b_ in (("cols", "rows"), ("top_margin", "bottom_margin"), ("col", "row"), ("start", "end"), ("scroll_up", "scroll_down"),
               ("rotate_left", "rotate_right"), ("saved_ctx", "alternate_saved_ctx"), ("buffer", "other_buffer"),
               ("cursor_col", "cursor_row"), ("scroll_up_in_region", "scroll_down_in_region"), ("cursor_up", "cursor_down"),
               ("insert", "delete"), ("soft", "hard"), ("origin_mode", "auto_wrap_mode"), ("foreground", "background")):
    SWAPS[a_] = b_
    SWAPS[b_] = a_
OPS = "all"
KANI = False


def sites(toks, lo, hi):
    """list of (description, [(tok_index, new_text)...])"""
    s = sigs(toks, lo + 1, hi - 1)
    res = []
    for n, i in enumerate(s):
        t = toks[i]
        prev = toks[s[n - 1]] if n > 0 else None
        nxt = toks[s[n + 1]] if n + 1 < len(s) else None
        adj_next = nxt is not None and nxt.pos == t.end
        adj_prev = prev is not None and prev.end == t.pos
        if t.kind == NUM and t.text in ("0", "1", "2") and not (prev is not None and prev.text == "."):
            res.append(("lit %s->%d" % (t.text, int(t.text) + 1), [(i, str(int(t.text) + 1))]))
        elif t.kind == IDENT and t.text in ("min", "max") and prev is not None and prev.text == ".":
            res.append(("%s->%s" % (t.text, "max" if t.text == "min" else "min"), [(i, "max" if t.text == "min" else "min")]))
        elif t.kind == IDENT and t.text in SWAPS and prev is not None and prev.text == "." and OPS in ("all", "swap"):
            res.append(("%s->%s" % (t.text, SWAPS[t.text]), [(i, SWAPS[t.text])]))
        elif OPS == "swap":
            continue
        elif t.kind == IDENT and t.text in ("true", "false"):
            res.append(("%s flipped" % t.text, [(i, "false" if t.text == "true" else "true")]))
        elif t.kind == PUNCT:
            two = t.text + nxt.text if adj_next and nxt.kind == PUNCT else ""
            if t.text == "!" and two != "!=" and nxt is not None and (nxt.kind == IDENT or nxt.text == "(") and OPS == "all":
                res.append(("drop !", [(i, "")]))
            if two in ("<=", ">="):
                res.append(("%s->%s" % (two, t.text), [(s[n + 1], "")]))
            elif two in ("==", "!="):
                res.append(("%s flipped" % two, [(i, "!" if t.text == "=" else "=")]))
            elif two in ("&&", "||"):
                o = "|" if t.text == "&" else "&"
                res.append(("%s->%s" % (two, o + o), [(i, o), (s[n + 1], o)]))
            elif two in ("+=", "-="):
                res.append(("%s flipped" % two, [(i, "-" if t.text == "+" else "+")]))
            elif t.text in "<>" and not adj_next and not (adj_prev and prev.kind == PUNCT) \
                    and prev is not None and (prev.kind in (IDENT, NUM) or prev.text in ")]") \
                    and not (prev.kind == IDENT and prev.text[:1].isupper()) and toks[i - 1].kind == rustlex.WS:
                res.append(("%s->%s=" % (t.text, t.text), [(i, t.text + "=")]))
            elif t.text in "+-" and not adj_next and not (adj_prev and prev.kind == PUNCT) \
                    and prev is not None and (prev.kind in (IDENT, NUM) or prev.text in ")]") and toks[i - 1].kind == rustlex.WS:
                res.append(("%s->%s" % (t.text, "-" if t.text == "+" else "+"), [(i, "-" if t.text == "+" else "+")]))
    if OPS == "swap":
        return res
    # statement deletion: `self ... ;` statements
    depth_start = {}
    stack = []
    stmt_start = None
    for n, i in enumerate(s):
        t = toks[i]
        if t.kind == PUNCT and t.text in "{([":
            stack.append((t.text, stmt_start))
            stmt_start = None
            continue
        if t.kind == PUNCT and t.text in "})]":
            if stack:
                _, stmt_start = stack.pop()
            if t.text == "}":
                stmt_start = None
            continue
        if stack and stack[-1][0] != "{":
            continue
        if stmt_start is None:
            stmt_start = i
        if t.kind == PUNCT and t.text == ";":
            nx = next((k for k in range(stmt_start + 1, i) if toks[k].sig()), None)
            is_call_stmt = toks[stmt_start].kind == IDENT and toks[stmt_start].text not in ("let", "return", "if", "for", "while", "match", "loop", "break", "continue") \
                and nx is not None and toks[nx].text == "."
            if (toks[stmt_start].text == "self" or is_call_stmt) and stmt_start != i:
                txt = rustlex.untokenize(toks[stmt_start:i + 1])
                res.append(("delete `%s`" % " ".join(txt.split())[:50], [(k, "") for k in range(stmt_start, i + 1)]))
            stmt_start = None
    return res


def module_of(rel):
    return rel[len("src/"):-3].replace("/", "::")


def work(job):
    (idx, rel, key, desc, edits, line, wdir, threads) = job
    import verus_run
    scratch = os.path.join(wdir, "repo")
    if not os.path.exists(scratch):
        os.makedirs(scratch)
        subprocess.run("rsync -a --exclude target --exclude .git %s/ %s/" % (REPO, scratch), shell=True)
    src_path = os.path.join(scratch, rel)
    orig = open(os.path.join(REPO, rel), encoding="utf-8").read()
    toks = rustlex.lex(orig)
    for (i, new) in edits:
        toks[i].text = new
    open(src_path, "w", encoding="utf-8").write("".join(t.text for t in toks))
    rec = {"id": idx, "file": rel, "fn": key, "op": desc, "line": line}
    t0 = time.time()
    if KANI:
        try:
            import kani_run
            hs = [u for u in kani_run.units() if u["target"] == rel and u["tier"] == "quick"]
            kres, _ = kani_run.run_harnesses(scratch, hs, jobs=threads)
            failed = [h["name"] for h in hs if kres.get(h["name"], {}).get("status") == "fail"]
            other = [h["name"] + ":" + kres.get(h["name"], {}).get("status", "?") for h in hs if kres.get(h["name"], {}).get("status") not in ("ok", "fail")]
            if failed:
                rec["verdict"], rec["by"] = "killed", failed[:3]
            elif other and all(kres.get(h["name"], {}).get("status") == "undecided" and "build" in kres[h["name"]].get("detail", "") for h in hs):
                rec["verdict"], rec["by"] = "invalid", ["does not compile"]
            else:
                env = dict(os.environ, CARGO_NET_OFFLINE="true", CARGO_TARGET_DIR=os.path.join(wdir, "target"))
                p = subprocess.run("cargo test --offline 2>&1 | grep -E '^test result|error(\\[|:)|FAILED|panicked' | head -5", shell=True, cwd=scratch, env=env,
                                   stdout=subprocess.PIPE, stderr=subprocess.STDOUT, text=True, timeout=900)
                out = p.stdout
                if "error" in out and "test result" not in out:
                    rec["verdict"], rec["by"] = "invalid", ["does not compile"]
                elif "FAILED" in out or "panicked" in out:
                    rec["verdict"] = "tests-kill"
                else:
                    rec["verdict"], rec["by"] = "GAP", other[:3]
        except Exception as e:
            rec["verdict"], rec["by"] = "invalid", ["driver: %s" % e]
        finally:
            open(src_path, "w", encoding="utf-8").write(orig)
        rec["secs"] = round(time.time() - t0, 1)
        print("%4d %-10s %-22s %-44s L%-5d %-24s %s" % (idx, rec["verdict"], rel, key[:44], line, desc[:24], (rec.get("by") or [""])[0][:70]), flush=True)
        return rec
    try:
        simple = " as " not in key and "<" not in key
        res = verus_run.run(scratch, modules=[module_of(rel)], function=(key if simple else None), threads=threads)
        fails = [f["obligation"] for f in res.failures if "KF" not in f["tags"]]
        und = [u["reason"][:100] for u in res.undecided]
        if fails:
            rec["verdict"], rec["by"] = "killed", fails[:3]
        elif und:
            rec["verdict"], rec["by"] = "invalid", und[:1]
        else:
            env = dict(os.environ, CARGO_NET_OFFLINE="true", CARGO_TARGET_DIR=os.path.join(wdir, "target"))
            p = subprocess.run("cargo test --offline 2>&1 | grep -E '^test result|error(\\[|:)|FAILED|panicked' | head -5", shell=True, cwd=scratch, env=env,
                               stdout=subprocess.PIPE, stderr=subprocess.STDOUT, text=True, timeout=900)
            out = p.stdout
            if "error" in out and "test result" not in out:
                rec["verdict"], rec["by"] = "invalid", ["does not compile"]
            elif "FAILED" in out or "panicked" in out:
                rec["verdict"] = "tests-kill"
            else:
                rec["verdict"] = "GAP"
    except Exception as e:
        rec["verdict"], rec["by"] = "invalid", ["driver: %s" % e]
    finally:
        open(src_path, "w", encoding="utf-8").write(orig)
    rec["secs"] = round(time.time() - t0, 1)
    print("%4d %-10s %-22s %-44s L%-5d %-24s %s" % (idx, rec["verdict"], rel, key[:44], line, desc[:24], (rec.get("by") or [""])[0][:70]), flush=True)
    return rec


def main():
    ap = argparse.ArgumentParser()
    ap.add_argument("--n", type=int, default=200)
    ap.add_argument("--seed", type=int, default=1)
    ap.add_argument("--files", default="")
    ap.add_argument("--fn", default="")
    ap.add_argument("--jobs", type=int, default=4)
    ap.add_argument("--kani", action="store_true", help="mutate the leaf functions whose contract is assumed in Verus (external_body) and judge by the quick Kani units of the file")
    ap.add_argument("--ops", default="all", help="all | swap (identifier swaps only: cols<->rows, col<->row, top<->bottom margin, ...)")
    ap.add_argument("--out", default=os.path.join(VERIF, "seeded", "mutgen.json"))
    a = ap.parse_args()
    global OPS, KANI
    OPS = a.ops
    KANI = a.kani
    assert subprocess.run("git -C %s status --porcelain" % REPO, shell=True, stdout=subprocess.PIPE, text=True).stdout.strip() == "", "/repo not clean"
    tmp = tempfile.mkdtemp(prefix="avt-mg-")
    try:
        anchors = weave.weave_tree(REPO, os.path.join(tmp, "w"))
        verified = set((f["file"], f["key"]) for f in anchors["functions"] if f["mode"] == "verify" and f["contracted"])
        if KANI:
            verified = set((f["file"], f["key"]) for f in anchors["functions"] if f["mode"] == "external_body")
        cands = []
        files = [f for f in a.files.split(",") if f] or sorted(set(f for f, _ in verified))
        for rel in files:
            src = open(os.path.join(REPO, rel), encoding="utf-8").read()
            toks = rustlex.lex(src)
            for (key, lo, hi) in fn_items(toks):
                if (rel, key) not in verified or (a.fn and a.fn not in key):
                    continue
                for (desc, edits) in sites(toks, lo, hi):
                    line = src.count("\n", 0, toks[edits[0][0]].pos) + 1
                    cands.append((rel, key, desc, edits, line))
        rnd = random.Random(a.seed)
        rnd.shuffle(cands)
        pick = cands[:a.n]
        print("candidate sites: %d in %d verified functions; running %d (seed %d)" % (len(cands), len(verified), len(pick), a.seed), flush=True)
        jobs = []
        for i, (rel, key, desc, edits, line) in enumerate(pick):
            jobs.append((i, rel, key, desc, edits, line, os.path.join(tmp, "w%d" % (i % a.jobs)), max(2, 16 // a.jobs)))
        # one worker per scratch copy: jobs with the same i % jobs share a directory, so run them in that worker
        buckets = [[j for j in jobs if j[0] % a.jobs == k] for k in range(a.jobs)]
        with Pool(a.jobs) as pool:
            parts = pool.map(run_bucket, buckets)
        recs = sorted([r for p in parts for r in p], key=lambda r: r["id"])
        tally = {}
        for r in recs:
            tally[r["verdict"]] = tally.get(r["verdict"], 0) + 1
        print("TALLY", tally)
        prev = json.load(open(a.out)) if os.path.exists(a.out) else {"runs": []}
        prev["runs"].append({"seed": a.seed, "n": len(pick), "candidates": len(cands), "tally": tally,
                             "gaps": [r for r in recs if r["verdict"] == "GAP"], "records": recs})
        json.dump(prev, open(a.out, "w"), indent=1)
    finally:
        shutil.rmtree(tmp, ignore_errors=True)


def run_bucket(bucket):
    return [work(j) for j in bucket]


if __name__ == "__main__":
    main()
