#!/usr/bin/env python3
"""Rewrite `X.frame(O, Fm { a: true, b: true, ..fm_none() })` in contracts/terminal.spec and
terminal.extra.rs into calls of explicit per-mask predicates `X.frame_a_b(O)` and (re)generate
those predicates in contracts/terminal.extra.rs between the GENERATED-FRAMES markers.
(The mask-struct formulation cost the solver a case split per group; the explicit
conjunctions are one to two orders of magnitude cheaper.)"""
import re, os
D = os.path.join(os.path.dirname(os.path.abspath(__file__)), "contracts")
GROUPS = {
 "cursor": "self.cursor.col == o.cursor.col && self.cursor.row == o.cursor.row && self.pending_wrap == o.pending_wrap",
 "buffer": "self.buffer == o.buffer",
 "dirty": "self.dirty_lines == o.dirty_lines",
 "pen": "self.pen == o.pen",
 "tabs": "self.tabs == o.tabs",
 "margins": "self.top_margin == o.top_margin && self.bottom_margin == o.bottom_margin",
 "saved": "self.saved_ctx == o.saved_ctx",
 "modes": "self.insert_mode == o.insert_mode && self.origin_mode == o.origin_mode && self.auto_wrap_mode == o.auto_wrap_mode && self.new_line_mode == o.new_line_mode && self.cursor_keys_mode == o.cursor_keys_mode && self.cursor.visible == o.cursor.visible",
 "charsets": "self.charsets == o.charsets && self.active_charset == o.active_charset",
 "other": "self.other_buffer == o.other_buffer && self.alternate_saved_ctx == o.alternate_saved_ctx && self.active_buffer_type == o.active_buffer_type",
 "geom": "self.cols == o.cols && self.rows == o.rows",
}
ORDER = list(GROUPS)
pat = re.compile(r"\.frame\(([^,]+),\s*Fm\s*\{([^}]*)\}\s*\)")
masks = set()
def repl(m):
    names = [x.split(":")[0].strip() for x in m.group(2).split(",") if ":" in x]
    names = [n for n in ORDER if n in names]
    masks.add(tuple(names))
    return ".frame_%s(%s)" % ("_".join(names) if names else "none", m.group(1).strip())
for f in ("terminal.spec", "terminal.extra.rs"):
    p = os.path.join(D, f)
    s = open(p).read()
    s2 = pat.sub(repl, s)
    open(p, "w").write(s2)
# also pick up already-rewritten uses
for f in ("terminal.spec", "terminal.extra.rs"):
    for m in re.finditer(r"\.frame_([a-z_]+)\(", open(os.path.join(D, f)).read()):
        n = m.group(1)
        if n == "none":
            masks.add(())
        else:
            masks.add(tuple(x for x in ORDER if x in n.split("_")))
out = ["// GENERATED-FRAMES-BEGIN (gen_frames.py)\nimpl Terminal {\n"]
for mk in sorted(masks):
    name = "frame_" + ("_".join(mk) if mk else "none")
    out.append("    /// frame: every group except {%s} is exactly what it was in `o`\n" % ", ".join(mk))
    out.append("    pub open spec fn %s(&self, o: Terminal) -> bool {\n" % name)
    for g in ORDER:
        if g not in mk:
            out.append("        &&& %s\n" % GROUPS[g])
    out.append("        &&& self.scrollback_limit == o.scrollback_limit\n        &&& self.xtwinops == o.xtwinops\n    }\n")
out.append("}\n// GENERATED-FRAMES-END\n")
p = os.path.join(D, "terminal.extra.rs")
s = open(p).read()
s = re.sub(r"// GENERATED-FRAMES-BEGIN.*?// GENERATED-FRAMES-END\n", "", s, flags=re.S)
s = s.rstrip("\n") + "\n\n" + "".join(out)
open(p, "w").write(s)
print("frames:", sorted("_".join(m) or "none" for m in masks))
