#!/usr/bin/env python3
"""Weaver: copy /repo's working tree to a scratch dir and splice the contract text of
/verif/contracts into the *real* source files, wrap them in verus!{}, and emit an anchor
map (clause id -> woven file/line range, function -> line range) used to turn Verus
diagnostics back into named obligations.

Only three kinds of non-ghost edits are ever made (DESIGN.md section 2.2):
  N1  pattern parameter     fn f((a, b): T)      -> fn f(__p0: T) { let (a, b) = __p0; ... }
  N2  destructuring assign  (x, y) = e;          -> let (__d0, __d1) = e; x = __d0; y = __d1;
  N3  visibility            private / pub(crate) -> pub
Everything else that is inserted is ghost text (contracts, invariants, proof blocks,
spec/proof functions, verifier attributes) that Verus erases.
"""
import hashlib
import json
import os
import re
import shutil
import sys
from dataclasses import dataclass, field

sys.path.insert(0, os.path.dirname(os.path.abspath(__file__)))
from rustlex import (lex, untokenize, match_close, next_sig, prev_sig, norm, Tok,
                     WS, COMMENT, STR, CHAR, LIFETIME, NUM, IDENT, PUNCT)

VERIF = os.path.dirname(os.path.abspath(__file__))
CONTRACTS = os.path.join(VERIF, "contracts")


class WeaveError(Exception):
    """lost anchor / malformed contract: never an alarm, always exit 2"""


# ----------------------------------------------------------------------------------------
# contract file parsing
# ----------------------------------------------------------------------------------------

@dataclass
class Clause:
    cid: str
    tags: list
    text: str
    src: str = ""      # contract file:line
    kind: str = ""     # requires / ensures / invariant / hint
    owner: str = ""    # function key
    loop: int = 0


@dataclass
class LoopSpec:
    ordinal: int
    iter_name: str = ""
    invariants: list = field(default_factory=list)
    decreases: str = ""
    hints: list = field(default_factory=list)   # (anchor, Clause)
    ensures: list = field(default_factory=list)
    no_break: bool = False


@dataclass
class FnSpec:
    key: str
    tags: list = field(default_factory=list)
    mode: str = "verify"
    ret: str = ""
    requires: list = field(default_factory=list)
    ensures: list = field(default_factory=list)
    decreases: str = ""
    loops: dict = field(default_factory=dict)
    hints: list = field(default_factory=list)   # (anchor, Clause)
    attrs: list = field(default_factory=list)
    src: str = ""
    used: bool = False
    opens_invariants: str = ""
    stmts: str = ""     # expected top-level statement counts, e.g. "6" or "6 4/1:3"
    closures: dict = field(default_factory=dict)   # ordinal -> FnSpec-like (ret type, requires, ensures)
    genpost: str = ""   # name of a generated spec predicate = conjunction of the ensures clauses


@dataclass
class ItemSpec:
    key: str
    attrs: list = field(default_factory=list)
    mode: str = ""
    src: str = ""
    used: bool = False


CLAUSE_RE = re.compile(r"^([A-Za-z][A-Za-z0-9_]*)\s*(\[[A-Za-z0-9_, ]*\])?:(?:\s+(.*))?$")
HINT_RE = re.compile(r"^hint(?:\s+([A-Z][A-Za-z0-9_]*))?\s*(\[[A-Za-z0-9_, ]*\])?\s+(start|end|before|after)\b\s*((?:stmt\s+[0-9/]+)|(?:\"[^\"]*\"(?:\s*#\d+)?)|)\s*:\s*(.*)$")


def _parse_tags(s):
    if not s:
        return []
    return [t.strip() for t in s.strip("[]").split(",") if t.strip()]


def parse_contract_file(path):
    fns, items = {}, {}
    if not os.path.exists(path):
        return fns, items
    lines = open(path, encoding="utf-8").read().split("\n")
    cur = None           # FnSpec or ItemSpec
    section = None       # 'requires' | 'ensures' | ('loop', LoopSpec, subsection) ...
    loop = None
    last_clause = None
    last_indent = 0
    hint_counter = [0]

    def err(i, msg):
        raise WeaveError("%s:%d: %s" % (path, i + 1, msg))

    for i, raw in enumerate(lines):
        if not raw.strip() or raw.lstrip().startswith("#"):
            continue
        indent = len(raw) - len(raw.lstrip(" "))
        line = raw.strip()
        # continuation of previous clause?
        if last_clause is not None and indent > last_indent:
            last_clause.text += "\n" + " " * (indent - last_indent) + line
            continue
        last_clause = None
        if indent == 0:
            section, loop = None, None
            if line.startswith("fn "):
                key = line[3:].strip()
                if key in fns:
                    err(i, "duplicate fn " + key)
                cur = FnSpec(key=key, src="%s:%d" % (os.path.basename(path), i + 1))
                fns[key] = cur
            elif line.startswith("item "):
                key = line[5:].strip()
                cur = ItemSpec(key=key, src="%s:%d" % (os.path.basename(path), i + 1))
                items[key] = cur
            else:
                err(i, "expected 'fn' or 'item'")
            continue
        if cur is None:
            err(i, "text before first fn")
        if indent == 2:
            loop = None
            section = None
        if indent == 2 or (indent == 4 and loop is not None and section != ("clauses",)):
            target = loop if (indent == 4 and loop is not None) else cur
            # key line
            if isinstance(cur, ItemSpec):
                if line.startswith("attr:"):
                    cur.attrs.append(line[5:].strip())
                elif line.startswith("mode:"):
                    cur.mode = line[5:].strip()
                else:
                    err(i, "unknown item key")
                continue
            if line.startswith("tags:"):
                cur.tags = line[5:].replace(",", " ").split()
            elif line.startswith("mode:"):
                cur.mode = line[5:].strip()
            elif line.startswith("ret:"):
                cur.ret = line[4:].strip()
            elif line.startswith("attr:"):
                cur.attrs.append(line[5:].strip())
            elif line.startswith("genpost:"):
                cur.genpost = line.split(":", 1)[1].strip()
            elif line.startswith("stmts:"):
                cur.stmts = line[6:].strip()
            elif line.startswith("opens_invariants:"):
                cur.opens_invariants = line.split(":", 1)[1].strip()
            elif line == "requires" and indent == 4 and loop is not None:
                section = ("list", loop.invariants, "requires", indent + 2)
            elif line == "requires":
                section = ("list", cur.requires, "requires", indent + 2)
            elif line == "ensures":
                section = ("list", target.ensures, "ensures", indent + 2)
            elif line == "invariant":
                if loop is None:
                    err(i, "invariant outside loop")
                section = ("list", loop.invariants, "invariant", indent + 2)
            elif line.startswith("decreases:"):
                target.decreases = line.split(":", 1)[1].strip()
                last_clause = Clause("decreases", [], target.decreases)
                # allow continuation: write back on use
                last_indent = indent
                _dec_target = target

                class _Proxy:
                    pass
                # continuation lines for decreases are not supported; keep it one line
                last_clause = None
            elif line.startswith("iter:"):
                if loop is None:
                    err(i, "iter outside loop")
                loop.iter_name = line[5:].strip()
            elif line.startswith("loop "):
                n = int(line.split()[1])
                loop = LoopSpec(ordinal=n)
                cur.loops[n] = loop
                section = None
            elif line.startswith("closure "):
                parts = line.split(None, 2)
                n = int(parts[1])
                loop = LoopSpec(ordinal=n)
                loop.iter_name = parts[2].strip()    # return type text, e.g. "(r: ScrollbackLimit)"
                loop.is_closure = True
                cur.closures[n] = loop
                section = None
            elif line.startswith("hint"):
                m = HINT_RE.match(line)
                if not m:
                    err(i, "malformed hint line")
                hint_counter[0] += 1
                cid = m.group(1) or ("H%d" % hint_counter[0])
                anchor = (m.group(3), m.group(4).strip())
                c = Clause(cid, _parse_tags(m.group(2)), m.group(5), kind="hint",
                           src="%s:%d" % (os.path.basename(path), i + 1), owner=cur.key,
                           loop=loop.ordinal if (loop is not None and indent == 4) else 0)
                target.hints.append((anchor, c))
                last_clause, last_indent = c, indent
            else:
                err(i, "unknown key line: " + line)
            continue
        # clause line
        if section and section[0] == "list" and indent == section[3]:
            m = CLAUSE_RE.match(line)
            if not m:
                err(i, "malformed clause (expected 'ID [tags]: text')")
            c = Clause(m.group(1), _parse_tags(m.group(2)), m.group(3) or "", kind=section[2],
                       src="%s:%d" % (os.path.basename(path), i + 1), owner=cur.key,
                       loop=loop.ordinal if loop is not None and section[2] != "requires" and indent == 6 else 0)
            section[1].append(c)
            last_clause, last_indent = c, indent
            continue
        err(i, "unexpected indentation")
    return fns, items


# ----------------------------------------------------------------------------------------
# item discovery
# ----------------------------------------------------------------------------------------

ITEM_KW = {"fn", "struct", "enum", "impl", "mod", "use", "const", "static", "type", "trait", "macro_rules"}


@dataclass
class Item:
    kind: str
    name: str
    start: int        # token index of first token (attributes included)
    vis: tuple        # (tok index start, tok index end) of visibility tokens or None
    kw: int           # token index of the keyword
    open: int         # token index of '{' (or -1)
    close: int        # token index of matching '}' or terminating ';'
    attrs: list = field(default_factory=list)   # normalised attribute strings
    header: str = ""
    children: list = field(default_factory=list)
    cfg_test: bool = False


def parse_items(toks, lo, hi):
    items = []
    i = next_sig(toks, lo)
    while i < hi:
        start = i
        attrs = []
        # attributes
        while toks[i].kind == PUNCT and toks[i].text == "#":
            j = next_sig(toks, i + 1)
            if toks[j].text == "!":
                j = next_sig(toks, j + 1)
            if toks[j].text != "[":
                raise WeaveError("unexpected '#' at offset %d" % toks[i].pos)
            k = match_close(toks, j)
            attrs.append(norm(toks[i:k + 1]))
            i = next_sig(toks, k + 1)
        vis = None
        if toks[i].kind == IDENT and toks[i].text == "pub":
            vs = i
            j = next_sig(toks, i + 1)
            if toks[j].text == "(":
                k = match_close(toks, j)
                i = next_sig(toks, k + 1)
                vis = (vs, k)
            else:
                vis = (vs, vs)
                i = j
        # qualifiers
        while toks[i].kind == IDENT and toks[i].text in ("unsafe", "async", "extern", "default"):
            i = next_sig(toks, i + 1)
        if toks[i].kind == IDENT and toks[i].text == "const":
            j = next_sig(toks, i + 1)
            if toks[j].kind == IDENT and toks[j].text == "fn":
                i = j
        t = toks[i]
        if t.kind != IDENT or t.text not in ITEM_KW:
            raise WeaveError("cannot parse item at offset %d (%r)" % (t.pos, t.text))
        kw = i
        kind = t.text
        # find end: first '{' or ';' at bracket depth 0 (skipping (...) and [...])
        j = next_sig(toks, i + 1)
        name = toks[j].text if toks[j].kind == IDENT else ""
        opn, close = -1, -1
        k = j
        while k < hi:
            tk = toks[k]
            if tk.kind == PUNCT:
                if tk.text in "([":
                    k = match_close(toks, k)
                elif tk.text == "{" and kind == "use":
                    k = match_close(toks, k)
                elif tk.text == "{":
                    opn = k
                    close = match_close(toks, k)
                    break
                elif tk.text == ";":
                    close = k
                    break
            k += 1
        if close < 0:
            raise WeaveError("unterminated item at offset %d" % t.pos)
        header = ""
        if kind == "impl":
            header = impl_key(toks[kw + 1:opn])
        it = Item(kind, name, start, vis, kw, opn, close, attrs, header)
        it.cfg_test = any("cfg ( test )" in a for a in attrs)
        if kind in ("impl", "trait") and opn >= 0:
            it.children = parse_items(toks, opn + 1, close)
        if kind == "mod" and opn >= 0 and not it.cfg_test:
            it.children = parse_items(toks, opn + 1, close)
        items.append(it)
        i = next_sig(toks, close + 1)
    return items


def impl_key(hdr_toks):
    """'Terminal' for inherent impls, 'Buffer as Index<usize>' for trait impls; leading
    generic parameter list dropped."""
    sig = [t for t in hdr_toks if t.sig()]
    # drop leading <...>
    if sig and sig[0].text == "<":
        depth = 0
        for idx, t in enumerate(sig):
            if t.text == "<":
                depth += 1
            elif t.text == ">" and not (idx > 0 and sig[idx - 1].text == "-"):
                depth -= 1
                if depth == 0:
                    sig = sig[idx + 1:]
                    break
    # drop where clause
    for idx, t in enumerate(sig):
        if t.kind == IDENT and t.text == "where":
            sig = sig[:idx]
            break
    # split at top-level 'for'
    depth = 0
    for idx, t in enumerate(sig):
        if t.text == "<":
            depth += 1
        elif t.text == ">" and not (idx > 0 and sig[idx - 1].text == "-"):
            depth -= 1
        elif t.kind == IDENT and t.text == "for" and depth == 0:
            return compact(sig[idx + 1:]) + " as " + compact(sig[:idx])
    return compact(sig)


def compact(sig):
    out = ""
    prev = None
    for t in sig:
        if prev is not None and prev.kind in (IDENT, NUM, LIFETIME) and t.kind in (IDENT, NUM, LIFETIME):
            out += " "
        if t.text == "=" or (prev is not None and prev.text == "=" ):
            out += " "
        out += t.text
        if t.text in (",",):
            out += " "
        prev = t
    return out.strip()


# ----------------------------------------------------------------------------------------
# edits
# ----------------------------------------------------------------------------------------

@dataclass
class Edit:
    pos: int          # char offset in original source
    dele: int         # chars to delete
    text: str
    kind: str         # ghost | N1 | N2 | N3
    seq: int = 0
    marks: list = field(default_factory=list)  # [(rel_line_start, rel_line_end, Clause)] inside text


class FileWeaver:
    def __init__(self, relpath, src, fnspecs, itemspecs, extra_text, report):
        self.relpath = relpath
        self.src = src
        self.toks = lex(src)
        self.fnspecs = fnspecs
        self.itemspecs = itemspecs
        self.extra_text = extra_text
        self.edits = []
        self.report = report
        self.fn_ranges = []     # (key, char_start, char_end, mode)
        self.n_seq = 0
        self._layout_changed = set()
        self.baseline_out = {}

    def add(self, pos, dele, text, kind, marks=None, prio=0):
        self.n_seq += 1
        self.edits.append(Edit(pos, dele, text, kind, self.n_seq + prio * 1000000, marks or []))

    # -- top level -------------------------------------------------------------------
    def weave(self):
        toks = self.toks
        items = parse_items(toks, 0, len(toks))
        # where does the verus! block start/end?  `mod x;` declarations stay outside.
        body_items = [it for it in items if not (it.kind == "mod" and it.open < 0)]
        tests = [it for it in items if it.kind == "mod" and it.cfg_test]
        first = None
        for it in items:
            if it.kind == "mod" and it.open < 0:
                continue
            if it in tests:
                continue
            first = it
            break
        # `mod x;` items that appear after `first` must be hoisted: we simply require
        # them to precede it (true for this crate) unless they are made pub in place.
        for it in items:
            if it.kind == "mod" and it.open < 0 and first is not None and it.start > first.start:
                raise WeaveError("%s: `mod %s;` after first item" % (self.relpath, it.name))
        is_lib = self.relpath == "src/lib.rs"
        if first is not None and not is_lib:
            self.add(toks[first.start].pos, 0, "use vstd::prelude::*;\nverus! {\n", "ghost")
        end_pos = toks[tests[0].start].pos if tests else len(self.src)
        for it in items:
            if it in tests:
                continue
            self.visit(it, None)
        if first is not None and not is_lib:
            tail = "\n" + (self.extra_text or "") + "\n} // verus!\n"
            self.add(end_pos, 0, tail, "ghost")
        elif is_lib:
            self.add(len(self.src), 0, "\n" + (self.extra_text or ""), "ghost")
        for k, s in self.fnspecs.items():
            if not s.used:
                raise WeaveError("lost anchor: contract %s (%s) has no function in %s" % (k, s.src, self.relpath))
        for k, s in self.itemspecs.items():
            if not s.used:
                raise WeaveError("lost anchor: item spec %s (%s) has no item in %s" % (k, s.src, self.relpath))

    def visit(self, it, parent):
        toks = self.toks
        if it.cfg_test:
            return
        in_trait_impl = parent is not None and parent.kind == "impl" and " as " in parent.header
        # item-level spec (attrs / mode)
        ikey = None
        if it.kind == "impl":
            ikey = "impl " + it.header
        elif it.kind in ("struct", "enum", "const", "type", "static"):
            ikey = it.kind + " " + it.name
        if ikey and ikey in self.itemspecs:
            sp = self.itemspecs[ikey]
            sp.used = True
            at = "".join(a + "\n" for a in sp.attrs)
            if sp.mode == "external":
                at += "#[verifier::external]\n"
            self.add(toks[it.start].pos, 0, at, "ghost", prio=-1)
        # N3: visibility
        if it.kind in ("fn", "struct", "enum", "const", "static", "type", "mod", "trait") and not in_trait_impl:
            if it.vis is None:
                # insert `pub ` before the keyword (or before `const fn` etc.)
                p = self.first_after_attrs(it)
                self.add(toks[p].pos, 0, "pub ", "N3")
                self.report["N3"] += 1
            else:
                vs, ve = it.vis
                txt = self.src[toks[vs].pos:toks[ve].end]
                if txt != "pub":
                    self.add(toks[vs].pos, len(txt), "pub", "N3")
                    self.report["N3"] += 1
        if it.kind == "struct":
            self.struct_fields(it)
        if it.kind == "impl":
            for ch in it.children:
                self.visit(ch, it)
        if it.kind == "mod" and it.open >= 0:
            for ch in it.children:
                self.visit(ch, it)
        if it.kind == "fn":
            self.visit_fn(it, parent)

    def first_after_attrs(self, it):
        toks = self.toks
        i = it.start
        while toks[i].text == "#":
            j = next_sig(toks, i + 1)
            if toks[j].text == "!":
                j = next_sig(toks, j + 1)
            k = match_close(toks, j)
            i = next_sig(toks, k + 1)
        return i

    def struct_fields(self, it):
        toks = self.toks
        # tuple struct: '(' after name (possibly after generics)
        j = next_sig(toks, it.kw + 1)      # name
        j = next_sig(toks, j + 1)
        if toks[j].text == "<":
            depth = 0
            while True:
                if toks[j].text == "<":
                    depth += 1
                elif toks[j].text == ">":
                    depth -= 1
                    if depth == 0:
                        break
                j += 1
            j = next_sig(toks, j + 1)
        if toks[j].text == "(":
            close = match_close(toks, j)
            self.fields(j + 1, close)
        elif it.open >= 0:
            self.fields(it.open + 1, it.close)

    def fields(self, lo, hi):
        toks = self.toks
        i = next_sig(toks, lo)
        while i < hi:
            # skip attributes
            while toks[i].text == "#":
                j = next_sig(toks, i + 1)
                k = match_close(toks, j)
                i = next_sig(toks, k + 1)
            if toks[i].kind == IDENT and toks[i].text == "pub":
                j = next_sig(toks, i + 1)
                if toks[j].text == "(":
                    k = match_close(toks, j)
                    txt = self.src[toks[i].pos:toks[k].end]
                    self.add(toks[i].pos, len(txt), "pub", "N3")
                    self.report["N3"] += 1
            else:
                self.add(toks[i].pos, 0, "pub ", "N3")
                self.report["N3"] += 1
            # advance to next top-level comma
            depth = 0
            while i < hi:
                t = toks[i]
                if t.kind == PUNCT:
                    if t.text in "([{":
                        i = match_close(toks, i)
                    elif t.text == "<":
                        depth += 1
                    elif t.text == ">" and toks[i - 1].text != "-":
                        depth -= 1
                    elif t.text == "," and depth == 0:
                        break
                i += 1
            i = next_sig(toks, i + 1)

    # -- functions ---------------------------------------------------------------------
    def visit_fn(self, it, parent):
        toks = self.toks
        owner = parent.header if (parent is not None and parent.kind == "impl") else ""
        key = (owner + "::" if owner else "") + it.name
        spec = self.fnspecs.get(key)
        if spec is not None:
            spec.used = True
        # parameter list
        j = next_sig(toks, it.kw + 1)          # name
        j = next_sig(toks, j + 1)
        has_generics = toks[j].text == "<"
        if toks[j].text == "<":                # generics
            depth = 0
            while True:
                if toks[j].text == "<":
                    depth += 1
                elif toks[j].text == ">" and toks[j - 1].text != "-":
                    depth -= 1
                    if depth == 0:
                        break
                j += 1
            j = next_sig(toks, j + 1)
        if toks[j].text != "(":
            raise WeaveError("cannot find parameter list of " + key)
        pclose = match_close(toks, j)
        mode = spec.mode if spec else "verify"
        body_prefix = ""
        # N1
        pidx = 0
        i = next_sig(toks, j + 1)
        while i < pclose:
            if toks[i].text == "(":
                k = match_close(toks, i)
                pat = self.src[toks[i].pos:toks[k].end]
                nm = "__p%d" % pidx
                self.add(toks[i].pos, len(pat), nm, "N1")
                body_prefix += " let %s = %s;" % (pat, nm)
                self.report["N1"].append(key)
            # advance to next top-level comma
            depth = 0
            while i < pclose:
                t = toks[i]
                if t.kind == PUNCT:
                    if t.text in "([{":
                        i = match_close(toks, i)
                    elif t.text == "<":
                        depth += 1
                    elif t.text == ">" and toks[i - 1].text != "-":
                        depth -= 1
                    elif t.text == "," and depth == 0:
                        break
                i += 1
            pidx += 1
            i = next_sig(toks, i + 1)
        if body_prefix:
            self.add(toks[it.open].end, 0, body_prefix, "N1")
        # attributes
        pre = ""
        if mode == "external_body":
            pre += "#[verifier::external_body]\n"
        elif mode == "external":
            pre += "#[verifier::external]\n"
        if spec:
            for a in spec.attrs:
                pre += a + "\n"
        if pre:
            self.add(toks[it.start].pos, 0, pre, "ghost", prio=-1)
        self.fn_ranges.append((key, toks[it.start].pos, toks[it.close].end, mode))
        if mode == "external":
            return
        # return naming
        if spec and spec.ret:
            # find '->' between pclose and open
            k = next_sig(toks, pclose + 1)
            if toks[k].text == "-" and toks[k + 1].text == ">":
                ts = next_sig(toks, k + 2)
                # type runs until 'where' or body open
                te = it.open
                for q in range(ts, it.open):
                    if toks[q].kind == IDENT and toks[q].text == "where":
                        te = q
                        break
                te = prev_sig(toks, te - 1)
                self.add(toks[ts].pos, 0, "(%s: " % spec.ret, "ghost")
                self.add(toks[te].end, 0, ")", "ghost")
            else:
                raise WeaveError("ret: given but %s has no return type" % key)
        if spec and spec.genpost:
            self.gen_post(spec, owner, j, pclose, it)
        if spec and mode != "external" and not has_generics:
            self.gen_vacuity(spec, owner, j, pclose, key)
        # contract clauses
        if spec and (spec.requires or spec.ensures or spec.decreases or spec.opens_invariants):
            text, marks = self.render_clauses(spec)
            self.add(toks[it.open].pos, 0, text, "ghost", marks)
        if mode == "external_body":
            return
        # N2 + loops + hints inside the body
        self.body(it, spec, key)

    def fn_params(self, popen, pclose):
        """[(name, type_text)] of the non-self parameters; has_self"""
        toks = self.toks
        params = []
        has_self = False
        i = next_sig(toks, popen + 1)
        idx = 0
        while i < pclose:
            q = i
            depth = 0
            while q < pclose:
                t = toks[q]
                if t.kind == PUNCT:
                    if t.text in "([{":
                        q = match_close(toks, q)
                    elif t.text == "<":
                        depth += 1
                    elif t.text == ">" and toks[q - 1].text != "-":
                        depth -= 1
                    elif t.text == "," and depth == 0:
                        break
                q += 1
            ptoks = [t for t in toks[i:q] if t.sig()]
            txt = [t.text for t in ptoks]
            if "self" in txt and ":" not in txt:
                has_self = True
            elif ptoks:
                if ptoks[0].text == "(":
                    name = "__p%d" % idx
                    k = txt.index(":", txt.index(")"))
                else:
                    name = ptoks[1].text if ptoks[0].text == "mut" else ptoks[0].text
                    k = txt.index(":")
                ty = self.src[ptoks[k + 1].pos:ptoks[-1].end]
                params.append((name, ty))
            idx += 1
            i = next_sig(toks, q + 1)
        return params, has_self

    def gen_vacuity(self, spec, owner, popen, pclose, key):
        if not spec.requires:
            return
        params, has_self = self.fn_params(popen, pclose)
        if any(("impl " in t or "'" in t or "dyn " in t) for _, t in params):
            return
        if has_self and ("<" in owner or " as " in owner and "<" in owner.split(" as ")[0]):
            return
        own_ty = owner.split(" as ")[0] if owner else ""
        sig = []
        if has_self:
            sig.append("self_: %s" % own_ty)
        sig += ["%s: %s" % (n, t) for n, t in params]
        reqs = []
        for c in spec.requires:
            t = c.text.replace("*old(self)", "self_").replace("old(self)", "self_")
            t = re.sub(r"\bself\b", "self_", t)
            reqs.append("        (%s)," % t)
        name = "vac_" + re.sub(r"[^A-Za-z0-9]+", "_", key)
        self.report.setdefault("vacuity", []).append(
            "/// %s\npub proof fn %s(%s)\n    requires\n%s\n    ensures false,\n{}\n" % (key, name, ", ".join(sig), "\n".join(reqs)))

    def gen_post(self, spec, owner, popen, pclose, it):
        """spec predicate  NAME(o: Owner, f: Owner, params..)  = conjunction of the ensures
        clauses with old(self) -> o, final(self) -> f (only for `&mut self` methods)"""
        toks = self.toks
        params = []
        i = next_sig(toks, popen + 1)
        first = True
        idx = 0
        while i < pclose:
            # one parameter: tokens up to next top-level comma
            q = i
            depth = 0
            while q < pclose:
                t = toks[q]
                if t.kind == PUNCT:
                    if t.text in "([{":
                        q = match_close(toks, q)
                    elif t.text == "<":
                        depth += 1
                    elif t.text == ">" and toks[q - 1].text != "-":
                        depth -= 1
                    elif t.text == "," and depth == 0:
                        break
                q += 1
            ptoks = [t for t in toks[i:q] if t.sig()]
            txt = [t.text for t in ptoks]
            if "self" in txt and ":" not in txt:
                pass
            else:
                if ptoks[0].text == "(":
                    name = "__p%d" % idx
                    k = txt.index(":", txt.index(")"))
                else:
                    name = ptoks[1].text if ptoks[0].text == "mut" else ptoks[0].text
                    k = txt.index(":")
                ty = self.src[ptoks[k + 1].pos:ptoks[-1].end]
                params.append((name, ty))
            idx += 1
            i = next_sig(toks, q + 1)
        body = []
        for c in spec.ensures:
            if "KF" in c.tags:
                continue   # known-finding clause: fails on the pinned tree, not part of the relied-upon contract
            t = c.text.replace("*old(self)", "o").replace("old(self)", "o").replace("*final(self)", "f").replace("final(self)", "f")
            body.append("        &&& (%s)" % t)
        sig = ", ".join(["o: %s" % owner, "f: %s" % owner] + ["%s: %s" % (n, t) for n, t in params])
        if spec.ret:
            # return type text
            k = next_sig(toks, pclose + 1)
            ts = next_sig(toks, k + 2)
            te = prev_sig(toks, it.open - 1)
            sig += ", %s: %s" % (spec.ret, self.src[toks[ts].pos:toks[te].end])
        self.extra_text = (self.extra_text or "") + "\n/// generated from the ensures clauses of %s (%s)\npub open spec fn %s(%s) -> bool {\n%s\n}\n" % (
            spec.key, spec.src, spec.genpost, sig, "\n".join(body) if body else "        true")

    def render_clauses(self, spec):
        out = ["\n"]
        marks = []

        def emit(header, clauses):
            if not clauses:
                return
            out.append("    %s\n" % header)
            for c in clauses:
                l0 = sum(s.count("\n") for s in out)
                out.append("        /*%s*/ (%s),\n" % (c.cid, c.text))
                l1 = sum(s.count("\n") for s in out) - 1
                marks.append((l0, l1, c))
        emit("requires", spec.requires)
        emit("ensures", spec.ensures)
        if spec.opens_invariants:
            out.append("    opens_invariants %s\n" % spec.opens_invariants)
        if spec.decreases:
            out.append("    decreases %s,\n" % spec.decreases)
        return "".join(out), marks

    def body(self, it, spec, key):
        toks = self.toks
        lo, hi = it.open, it.close
        self.check_stmt_counts(it, spec, key)
        self._cur_fn_open = it.open
        k0 = prev_sig(toks, it.open - 1)
        self._cur_has_ret = any(toks[q].text == "-" and toks[q + 1].text == ">" for q in range(it.kw, it.open))
        # loops by ordinal
        loops = []
        i = lo + 1
        while i < hi:
            t = toks[i]
            if t.kind == IDENT and t.text in ("for", "while", "loop"):
                # `for` in `impl ... for` cannot occur inside a body; HRTB `for<'a>` not used
                k = i + 1
                while k < hi:
                    tk = toks[k]
                    if tk.kind == PUNCT and tk.text in "([":
                        k = match_close(toks, k)
                    elif tk.kind == PUNCT and tk.text == "{":
                        break
                    k += 1
                loops.append((i, k, match_close(toks, k)))
            i += 1
        if spec:
            for n, ls in spec.loops.items():
                if n < 1 or n > len(loops):
                    raise WeaveError("lost anchor: %s loop %d (function has %d loops)" % (key, n, len(loops)))
                kwi, opn, cls = loops[n - 1]
                if ls.iter_name and toks[kwi].text == "for":
                    # for PAT in EXPR  ->  for PAT in NAME: EXPR
                    q = kwi + 1
                    while not (toks[q].kind == IDENT and toks[q].text == "in"):
                        if toks[q].kind == PUNCT and toks[q].text in "([":
                            q = match_close(toks, q)
                        q += 1
                    e = next_sig(toks, q + 1)
                    self.add(toks[e].pos, 0, "%s: " % ls.iter_name, "ghost")
                out = ["\n"]
                marks = []
                if ls.invariants:
                    out.append("    invariant\n")
                    for c in ls.invariants:
                        l0 = sum(s.count("\n") for s in out)
                        out.append("        /*%s*/ (%s),\n" % (c.cid, c.text))
                        l1 = sum(s.count("\n") for s in out) - 1
                        marks.append((l0, l1, c))
                if ls.ensures:
                    out.append("    ensures\n")
                    for c in ls.ensures:
                        l0 = sum(s.count("\n") for s in out)
                        out.append("        /*%s*/ (%s),\n" % (c.cid, c.text))
                        l1 = sum(s.count("\n") for s in out) - 1
                        marks.append((l0, l1, c))
                if ls.decreases:
                    out.append("    decreases %s,\n" % ls.decreases)
                self.add(toks[opn].pos, 0, "".join(out), "ghost", marks)
                for (anchor, c) in ls.hints:
                    self.place_hint(anchor, c, opn, cls, key)
            for (anchor, c) in spec.hints:
                self.place_hint(anchor, c, lo, hi, key)
        # N4: closure contracts  |args| EXPR  ->  |args| -> (r: T) requires .. ensures .. { EXPR }
        if spec and spec.closures:
            cl = []
            i = lo + 1
            while i < hi:
                t = toks[i]
                if t.kind == PUNCT and t.text == "|":
                    p = prev_sig(toks, i - 1)
                    if toks[p].text in ("(", ",", "=", "{", ";") or (toks[p].kind == IDENT and toks[p].text in ("move", "return")):
                        # parameter list ends at the next '|'
                        q = i + 1
                        if toks[next_sig(toks, q)].text == "|":
                            q = next_sig(toks, q)
                        else:
                            while not (toks[q].kind == PUNCT and toks[q].text == "|"):
                                if toks[q].kind == PUNCT and toks[q].text in "([":
                                    q = match_close(toks, q)
                                q += 1
                        # body: until unmatched ')' or ',' / ';' at depth 0
                        b0 = next_sig(toks, q + 1)
                        e = b0
                        while e < hi:
                            te = toks[e]
                            if te.kind == PUNCT and te.text in "([{":
                                e = match_close(toks, e)
                            elif te.kind == PUNCT and te.text in (")", ",", ";", "]", "}"):
                                break
                            e += 1
                        cl.append((q, b0, prev_sig(toks, e - 1)))
                        i = q
                i += 1
            for n, cs in spec.closures.items():
                if n < 1 or n > len(cl):
                    raise WeaveError("lost anchor: %s closure %d (function has %d closures)" % (key, n, len(cl)))
                q, b0, b1 = cl[n - 1]
                out = [" -> %s\n" % cs.iter_name]
                marks = []
                for header, clauses in (("requires", cs.invariants), ("ensures", cs.ensures)):
                    if clauses:
                        out.append("    %s\n" % header)
                        for c in clauses:
                            l0 = sum(x.count("\n") for x in out)
                            out.append("        /*%s*/ (%s),\n" % (c.cid, c.text))
                            l1 = sum(x.count("\n") for x in out) - 1
                            marks.append((l0, l1, c))
                out.append("{ ")
                self.add(toks[q].end, 0, "".join(out), "ghost", marks)
                self.add(toks[b1].end, 0, " }", "ghost")
                self.report.setdefault("N4", []).append(key)
        # N2: destructuring assignment statements
        i = lo + 1
        while i < hi:
            t = toks[i]
            if t.kind == PUNCT and t.text == "(":
                p = prev_sig(toks, i - 1)
                k = match_close(toks, i)
                nx = next_sig(toks, k + 1)
                nx2 = nx + 1
                if (toks[p].text in (";", "{", "}") and toks[nx].text == "=" and toks[nx2].text not in ("=", ">")
                        and toks[nx - 1].text not in ("=", "!", "<", ">", "+", "-", "*", "/")):
                    # split elements
                    elems = []
                    s = next_sig(toks, i + 1)
                    q = s
                    while q < k:
                        tq = toks[q]
                        if tq.kind == PUNCT and tq.text in "([{":
                            q = match_close(toks, q)
                        elif tq.kind == PUNCT and tq.text == ",":
                            elems.append(self.src[toks[s].pos:toks[prev_sig(toks, q - 1)].end])
                            s = next_sig(toks, q + 1)
                        q += 1
                    if s < k:
                        elems.append(self.src[toks[s].pos:toks[prev_sig(toks, k - 1)].end])
                    # find terminating ';'
                    q = nx2
                    while not (toks[q].kind == PUNCT and toks[q].text == ";"):
                        if toks[q].kind == PUNCT and toks[q].text in "([{":
                            q = match_close(toks, q)
                        q += 1
                    names = ["__d%d" % n for n in range(len(elems))]
                    self.add(toks[i].pos, toks[k].end - toks[i].pos, "let (%s)" % ", ".join(names), "N2")
                    self.add(toks[q].end, 0, "".join(" %s = %s;" % (e, n) for e, n in zip(elems, names)), "N2")
                    self.report["N2"].append(key)
                    i = q
            i += 1

    def place_hint(self, anchor, c, lo, hi, key):
        """lo/hi: token indices of the enclosing '{' and '}'"""
        toks = self.toks
        where, arg = anchor
        ghost_lets, rest = [], []
        for ln in c.text.split("\n"):
            (ghost_lets if ln.strip().startswith("let ghost ") else rest).append(ln)
        text = "\n" + "".join(g.strip() + "\n" for g in ghost_lets)
        pre = text.count("\n")
        if any(r.strip() for r in rest):
            text += "proof {\n" + "\n".join(rest) + "\n}\n"
            nl = text.count("\n")
            marks = [(pre + 1, max(pre + 1, nl - 2), c)]
        else:
            marks = []
        if where == "start":
            self.add(toks[lo].end, 0, text, "ghost", marks)
            return
        if where == "end" and arg.startswith("stmt"):
            # end of the block addressed by PATH (stmt/block/stmt/block...): robust against
            # statements added to or removed from that block
            path = [int(x) for x in arg.split()[1].split("/")]
            if len(path) % 2 != 0:
                raise WeaveError("hint %s in %s: `end stmt` path must address a block" % (c.cid, key))
            cur_lo, cur_hi = lo, hi
            idx = 0
            lost = None
            while idx < len(path):
                stmts = self.split_stmts(cur_lo, cur_hi)
                n, k = path[idx], path[idx + 1]
                if n < 1 or n > len(stmts):
                    lost = "lost anchor: hint %s in %s: block path %s" % (c.cid, key, arg)
                    break
                a, b = stmts[n - 1]
                blocks = []
                q = a
                while q <= b:
                    t = toks[q]
                    if t.kind == PUNCT and t.text in "([":
                        q = match_close(toks, q)
                    elif t.kind == PUNCT and t.text == "{":
                        e = match_close(toks, q)
                        blocks.append((q, e))
                        q = e
                    q += 1
                if k < 1 or k > len(blocks):
                    lost = "lost anchor: hint %s in %s: block path %s" % (c.cid, key, arg)
                    break
                cur_lo, cur_hi = blocks[k - 1]
                idx += 2
            if lost:
                if ghost_lets:
                    raise WeaveError(lost)
                self.report.setdefault("dropped_hints", []).append("%s/%s: %s" % (key, c.cid, lost))
                return
            self.add(toks[cur_hi].pos, 0, text, "ghost", marks)
            return
        if where == "end":
            stmts = self.split_stmts(lo, hi)
            fn_level = (lo == self._cur_fn_open)
            if not stmts:
                self.add(toks[hi].pos, 0, text, "ghost", marks)
            elif toks[stmts[-1][1]].text == ";" or not (fn_level and self._cur_has_ret):
                self.add(toks[hi].pos, 0, text, "ghost", marks)
            else:
                self.add(toks[stmts[-1][0]].pos, 0, text, "ghost", marks)
            return
        if arg.startswith("stmt"):
            path = [int(x) for x in arg.split()[1].split("/")]
            pstr = arg.split()[1] + ("@loop%d" % c.loop if c.loop else "")
            a = b = None
            if key not in self._layout_changed:
                try:
                    a, b = self.resolve_stmt(lo, hi, path, key, c)
                except WeaveError:
                    self._layout_changed.add(key)
            if a is not None:
                want = [t.text for t in toks[a:b + 1] if t.sig()][:5]
                fo, fc = self._cur_fn_open, match_close(toks, self._cur_fn_open)
                sig = [q for q in range(fo + 1, fc) if toks[q].sig()]
                hits = [sig[i] for i in range(len(sig) - len(want) + 1) if all(toks[sig[i + j]].text == want[j] for j in range(len(want)))]
                self.baseline_out.setdefault(key, {})[pstr] = {"tokens": want, "occ": hits.index(a) if a in hits else 0, "total": len(hits)}
            else:
                try:
                    a, b = self.relocate(lo, hi, key, pstr, c)
                except WeaveError as e:
                    if ghost_lets:
                        raise
                    # a pure proof hint (no ghost declarations) whose statement vanished: the hint is
                    # dropped and the function is verified without it (recorded; if the proof then no
                    # longer goes through, the failed obligations are reported as such)
                    self.report.setdefault("dropped_hints", []).append("%s/%s: %s" % (key, c.cid, e))
                    return
            if where == "before":
                self.add(toks[a].pos, 0, text, "ghost", marks)
            else:
                self.add(toks[b].end, 0, text, "ghost", marks)
            return
        m = re.match(r'^"(.*)"\s*(?:#(\d+))?$', arg)
        if not m:
            raise WeaveError("malformed hint anchor in %s: %r" % (key, arg))
        snippet = norm(lex(m.group(1)))
        occ = int(m.group(2) or 1)
        sig_idx = [q for q in range(lo + 1, hi) if toks[q].sig()]
        want = snippet.split(" ")
        found = []
        for a in range(len(sig_idx) - len(want) + 1):
            if all(toks[sig_idx[a + b]].text == want[b] for b in range(len(want))):
                found.append((sig_idx[a], sig_idx[a + len(want) - 1]))
        if len(found) < occ:
            raise WeaveError("lost anchor: hint %s in %s: snippet %r occurrence %d not found" % (c.cid, key, m.group(1), occ))
        s, e = found[occ - 1]
        if where == "before":
            s = self.stmt_start(s, lo)
            self.add(toks[s].pos, 0, text, "ghost", marks)
        else:
            q = e
            while q < hi:
                t = toks[q]
                if t.kind == PUNCT and t.text in "([{":
                    q2 = match_close(toks, q)
                    if t.text == "{":
                        nx = next_sig(toks, q2 + 1)
                        if toks[nx].text not in (";", ".", ")", ",") and not (toks[nx].kind == IDENT and toks[nx].text == "else"):
                            q = q2
                            break
                    q = q2
                elif t.kind == PUNCT and t.text == ";":
                    break
                q += 1
            self.add(toks[q].end, 0, text, "ghost", marks)

    def relocate(self, lo, hi, key, pstr, c):
        """statement layout of `key` differs from the contract's: find the anchored statement
        by the first tokens it had on the tree the contract was written for"""
        toks = self.toks
        rec = (BASELINE.get(self.relpath, {}).get(key, {}) or {}).get(pstr)
        if not rec:
            raise WeaveError("lost anchor: hint %s in %s: statement layout changed and no baseline for path %s" % (c.cid, key, pstr))
        want = rec["tokens"]
        fo, fc = self._cur_fn_open, match_close(toks, self._cur_fn_open)
        sig = [q for q in range(fo + 1, fc) if toks[q].sig()]
        hits = [sig[i] for i in range(len(sig) - len(want) + 1) if all(toks[sig[i + j]].text == want[j] for j in range(len(want)))]
        if len(hits) != rec["total"] or not hits:
            raise WeaveError("lost anchor: hint %s in %s: anchored statement (%s) %s after layout change" % (
                c.cid, key, " ".join(want), "not found" if not hits else "ambiguous"))
        start = hits[rec["occ"]]
        lo, hi = fo, fc
        # enclosing block
        depth = 0
        q = start - 1
        blk_lo = lo
        while q > lo:
            t = toks[q]
            if t.kind == PUNCT and t.text == "}":
                depth += 1
            elif t.kind == PUNCT and t.text == "{":
                if depth == 0:
                    blk_lo = q
                    break
                depth -= 1
            q -= 1
        blk_hi = match_close(toks, blk_lo)
        for (a, b) in self.split_stmts(blk_lo, blk_hi):
            if a == start:
                self.report.setdefault("relocated", []).append("%s: hint %s re-anchored on `%s`" % (key, c.cid, " ".join(want)))
                return a, b
        raise WeaveError("lost anchor: hint %s in %s: re-anchoring failed" % (c.cid, key))

    def split_stmts(self, lo, hi):
        """statements (or match arms) directly inside the block toks[lo]='{' .. toks[hi]='}':
        list of (first_tok, last_tok)"""
        toks = self.toks
        out = []
        i = next_sig(toks, lo + 1)
        while i < hi:
            start = i
            q = i
            while q < hi:
                t = toks[q]
                if t.kind == PUNCT and t.text in "([":
                    q = match_close(toks, q)
                elif t.kind == PUNCT and t.text == "{":
                    q = match_close(toks, q)
                    nx = next_sig(toks, q + 1)
                    if nx >= hi:
                        break
                    tn = toks[nx]
                    if tn.kind == PUNCT and tn.text == ",":
                        q = nx
                        break
                    if (tn.kind == IDENT and tn.text == "else") or (tn.kind == PUNCT and tn.text in (".", "?", ";", ")", "=")):
                        q += 1
                        continue
                    if tn.kind == PUNCT and tn.text in ("+", "-", "*", "/", "&", "|", "<", ">") :
                        # `{..} op` : only an expression continuation if the statement started
                        # with something other than a block keyword
                        if toks[start].kind == IDENT and toks[start].text in ("if", "match", "for", "while", "loop", "unsafe"):
                            break
                        q += 1
                        continue
                    break
                elif t.kind == PUNCT and t.text == ";":
                    break
                elif t.kind == PUNCT and t.text == "," :
                    break
                q += 1
            end = min(q, prev_sig(toks, hi - 1))
            out.append((start, end))
            i = next_sig(toks, end + 1)
        return out

    def resolve_stmt(self, lo, hi, path, key, c):
        toks = self.toks
        cur_lo, cur_hi = lo, hi
        a = b = None
        idx = 0
        while idx < len(path):
            stmts = self.split_stmts(cur_lo, cur_hi)
            n = path[idx]
            if n < 1 or n > len(stmts):
                raise WeaveError("lost anchor: hint %s in %s: statement path %s (block has %d statements)" % (
                    c.cid, key, "/".join(map(str, path)), len(stmts)))
            a, b = stmts[n - 1]
            idx += 1
            if idx < len(path):
                # descend into k-th brace block of this statement
                k = path[idx]
                idx += 1
                blocks = []
                q = a
                while q <= b:
                    t = toks[q]
                    if t.kind == PUNCT and t.text in "([":
                        q = match_close(toks, q)
                    elif t.kind == PUNCT and t.text == "{":
                        e = match_close(toks, q)
                        blocks.append((q, e))
                        q = e
                    q += 1
                if k < 1 or k > len(blocks):
                    raise WeaveError("lost anchor: hint %s in %s: statement has %d blocks, wanted %d" % (c.cid, key, len(blocks), k))
                cur_lo, cur_hi = blocks[k - 1]
                if idx == len(path):
                    raise WeaveError("hint %s in %s: path must end on a statement number" % (c.cid, key))
        return a, b

    def check_stmt_counts(self, it, spec, key):
        """`stmts: 6 4/1:3` = body has 6 statements; first block of statement 4 has 3"""
        if not spec or not spec.stmts:
            return
        toks = self.toks
        for part in spec.stmts.split():
            pth = ""
            if ":" in part:
                pth, cnt = part.split(":")
                path = [int(x) for x in pth.split("/")]
            else:
                path, cnt = [], part
            lo, hi = it.open, it.close
            idx = 0
            while idx < len(path):
                stmts = self.split_stmts(lo, hi)
                n = path[idx]
                if n < 1 or n > len(stmts):
                    self._layout_changed.add(key)
                    self.report.setdefault("relocated", []).append("%s: statement layout changed (path %s)" % (key, part))
                    return
                a, b = stmts[n - 1]
                k = path[idx + 1]
                blocks = []
                q = a
                while q <= b:
                    t = toks[q]
                    if t.kind == PUNCT and t.text in "([":
                        q = match_close(toks, q)
                    elif t.kind == PUNCT and t.text == "{":
                        e = match_close(toks, q)
                        blocks.append((q, e))
                        q = e
                    q += 1
                if k < 1 or k > len(blocks):
                    self._layout_changed.add(key)
                    self.report.setdefault("relocated", []).append("%s: statement layout changed (path %s)" % (key, part))
                    return
                lo, hi = blocks[k - 1]
                idx += 2
            got = len(self.split_stmts(lo, hi))
            if got != int(cnt):
                self._layout_changed.add(key)
                self.report.setdefault("relocated", []).append("%s: statement layout changed (%s: %d, contract expects %s)" % (key, part, got, cnt))
                return

    def stmt_start(self, idx, lo):
        """walk back from token idx to the first token of its statement (after ';', '{' or '}'
        at the same nesting depth)"""
        toks = self.toks
        q = idx - 1
        while q > lo:
            t = toks[q]
            if t.kind == PUNCT and t.text in ")]}":
                # jump to matching opener
                depth = 0
                r = q
                while r > lo:
                    tr = toks[r]
                    if tr.kind == PUNCT and tr.text in ")]}":
                        depth += 1
                    elif tr.kind == PUNCT and tr.text in "([{":
                        depth -= 1
                        if depth == 0:
                            break
                    r -= 1
                if t.text == "}":
                    # a block that ends a previous statement?
                    nx = next_sig(toks, q + 1)
                    if toks[nx].kind == IDENT and toks[nx].text == "else":
                        q = r - 1
                        continue
                    # is this block part of the current statement (e.g. `if c {..} else {..}` chain
                    # or match)? treat '}' followed by a new statement start as a boundary
                    return next_sig(toks, q + 1)
                q = r - 1
                continue
            if t.kind == PUNCT and t.text in (";", "{"):
                return next_sig(toks, q + 1)
            q -= 1
        return next_sig(toks, lo + 1)

    # -- output ------------------------------------------------------------------------
    def render(self, kinds=None):
        """apply edits (optionally only those whose kind is in `kinds`); returns
        (text, ghost_ranges, marks) where marks = [(line_start, line_end, Clause)] (1-based
        lines in the output) and ghost_ranges = [(start, end)] char ranges of ghost text."""
        edits = sorted([e for e in self.edits if kinds is None or e.kind in kinds],
                       key=lambda e: (e.pos, 0 if e.dele == 0 else 1, e.seq))
        out = []
        cur = 0
        olen = 0
        ghost = []
        marks = []
        line = 1
        posmap = []   # (orig_pos, out_pos) checkpoints
        for e in edits:
            if e.pos < cur:
                raise WeaveError("overlapping edits in %s at %d" % (self.relpath, e.pos))
            chunk = self.src[cur:e.pos]
            out.append(chunk)
            olen += len(chunk)
            line += chunk.count("\n")
            posmap.append((e.pos, olen))
            if e.kind == "ghost":
                ghost.append((olen, olen + len(e.text)))
            for (a, b, c) in e.marks:
                marks.append((line + a, line + b, c))
            out.append(e.text)
            olen += len(e.text)
            line += e.text.count("\n")
            cur = e.pos + e.dele
        out.append(self.src[cur:])
        return "".join(out), ghost, marks, posmap


def sig_tokens_outside(text, ranges):
    toks = lex(text)
    res = []
    ri = 0
    ranges = sorted(ranges)
    for t in toks:
        if not t.sig():
            continue
        while ri < len(ranges) and ranges[ri][1] <= t.pos:
            ri += 1
        if ri < len(ranges) and ranges[ri][0] <= t.pos < ranges[ri][1]:
            continue
        res.append(t.text)
    return res


# ----------------------------------------------------------------------------------------
# driver
# ----------------------------------------------------------------------------------------

SRC_FILES = ["src/lib.rs", "src/buffer.rs", "src/cell.rs", "src/charset.rs", "src/color.rs",
             "src/line.rs", "src/parser.rs", "src/pen.rs", "src/tabs.rs", "src/terminal.rs",
             "src/terminal/cursor.rs", "src/terminal/dirty_lines.rs", "src/util.rs", "src/vt.rs"]


def contract_name(rel):
    return rel[len("src/"):-len(".rs")].replace("/", "__")


def line_of(text, pos):
    return text.count("\n", 0, pos) + 1


def scan_proof_fns(woven, rel, shift, anchors):
    """proof functions (lemmas): named obligations "lemma:<name>", tags taken from a
    `/// [Cxx,...]` doc comment in front of them"""
    wt = lex(woven)
    for qi, t in enumerate(wt):
        if t.kind == IDENT and t.text == "proof":
            n1 = next_sig(wt, qi + 1)
            if n1 < len(wt) and wt[n1].text == "fn":
                n2 = next_sig(wt, n1 + 1)
                name = wt[n2].text
                k = n2
                while k < len(wt) and not (wt[k].kind == PUNCT and wt[k].text == "{"):
                    if wt[k].kind == PUNCT and wt[k].text in "([":
                        k = match_close(wt, k)
                    k += 1
                if k >= len(wt):
                    continue
                e = match_close(wt, k)
                tags = []
                b = qi - 1
                while b >= 0 and (wt[b].kind in (WS, COMMENT) or wt[b].text in ("pub", "broadcast", "#", "[", "]") or (wt[b].kind == IDENT and b > 0 and wt[b - 1].text in ("[", ":"))):
                    if wt[b].kind == COMMENT:
                        m = re.search(r"\[((?:C\d+|KF)(?:\s*,\s*(?:C\d+|KF))*)\]", wt[b].text)
                        if m and not tags:
                            tags = [x.strip() for x in m.group(1).split(",")]
                    b -= 1
                anchors["functions"].append({"file": rel, "key": "lemma:" + name, "mode": "proof",
                                             "line_start": line_of(woven, wt[qi].pos) + shift,
                                             "line_end": line_of(woven, wt[e].end) + shift,
                                             "tags": tags, "contracted": True})


BASELINE = {}


def fn_hashes(repo):
    """{"src/file.rs::Type::name": sha256 of the function's significant token stream} for every non-test fn"""
    out = {}
    for rel in SRC_FILES:
        sp = os.path.join(repo, rel)
        if not os.path.exists(sp):
            continue
        toks = lex(open(sp, encoding="utf-8").read())

        def walk(items, prefix):
            for it in items:
                if it.cfg_test:
                    continue
                if it.kind == "fn" and it.open >= 0:
                    key = (prefix + "::" if prefix else "") + it.name
                    out["%s::%s" % (rel, key)] = hashlib.sha256(norm(toks[it.kw:it.close + 1]).encode()).hexdigest()[:16]
                elif it.kind == "impl":
                    walk(it.children, it.header)
                elif it.kind == "mod":
                    walk(it.children, prefix)
        walk(parse_items(toks, 0, len(toks)), "")
    return out


def pinned_changed(repo, contracts_dir=None):
    """pinned (not Verus-verified) functions whose token stream differs from the recorded baseline"""
    bp = os.path.join(contracts_dir or CONTRACTS, "anchor_baseline.json")
    base = json.load(open(bp)).get("__pinned__", {}) if os.path.exists(bp) else {}
    try:
        cur = fn_hashes(repo)
    except Exception:
        return []
    return sorted(k for k in base if cur.get(k) != base[k])


def weave_tree(repo, out, extra_modules=None, contracts_dir=CONTRACTS, vacuity=False, record_baseline=False):
    """weave repo/src into out/src. returns anchors dict."""
    global BASELINE
    bp = os.path.join(contracts_dir, "anchor_baseline.json")
    BASELINE = json.load(open(bp)) if (os.path.exists(bp) and not record_baseline) else {}
    new_baseline = {}
    report = {"N1": [], "N2": [], "N3": 0}
    anchors = {"clauses": [], "functions": [], "files": {}, "normalisations": report,
               "body_hash_ok": True}
    os.makedirs(os.path.join(out, "src", "terminal"), exist_ok=True)
    present = []
    for root, _, files in os.walk(os.path.join(repo, "src")):
        for f in files:
            if f.endswith(".rs"):
                present.append(os.path.relpath(os.path.join(root, f), repo))
    for rel in sorted(present):
        if rel not in SRC_FILES:
            raise WeaveError("unknown source file %s (module tree changed)" % rel)
    all_specs = {}
    for rel in SRC_FILES:
        p = os.path.join(repo, rel)
        if not os.path.exists(p):
            raise WeaveError("lost anchor: source file %s missing" % rel)
        src = open(p, encoding="utf-8").read()
        cn = contract_name(rel)
        fnspecs, itemspecs = parse_contract_file(os.path.join(contracts_dir, cn + ".spec"))
        extra_path = os.path.join(contracts_dir, cn + ".extra.rs")
        extra = open(extra_path, encoding="utf-8").read() if os.path.exists(extra_path) else ""
        if rel == "src/lib.rs":
            extra = lib_extra(contracts_dir, extra)
        fw = FileWeaver(rel, src, fnspecs, itemspecs, extra, report)
        fw.weave()
        if fw.baseline_out:
            new_baseline[rel] = fw.baseline_out
        woven, ghost, marks, posmap = fw.render()
        # body-hash check: woven minus ghost text == original with only N1-N3 applied
        plain, _, _, _ = fw.render(kinds={"N1", "N2", "N3"})
        a = sig_tokens_outside(woven, ghost)
        b = [t.text for t in lex(plain) if t.sig()]
        ha = hashlib.sha256("\x00".join(a).encode()).hexdigest()
        hb = hashlib.sha256("\x00".join(b).encode()).hexdigest()
        anchors["files"][rel] = {"sha256_exec_tokens_woven": ha, "sha256_exec_tokens_repo_normalised": hb,
                                 "sha256_repo_file": hashlib.sha256(src.encode()).hexdigest()}
        if ha != hb:
            anchors["body_hash_ok"] = False
            raise WeaveError("executable token stream of %s changed by weaving" % rel)
        if rel == "src/lib.rs":
            woven = ("#![allow(unused_imports, unused_variables, unused_mut, dead_code, unused_parens, unused_braces, non_snake_case)]\n"
                     "#![feature(allocator_api)]\n#![feature(pattern)]\nuse vstd::prelude::*;\n" + woven)
            shift = 4
        else:
            shift = 0
        dst = os.path.join(out, rel)
        os.makedirs(os.path.dirname(dst), exist_ok=True)
        open(dst, "w", encoding="utf-8").write(woven)
        for (l0, l1, c) in marks:
            anchors["clauses"].append({"file": rel, "line_start": l0 + shift, "line_end": l1 + shift,
                                       "id": c.cid, "tags": c.tags, "kind": c.kind, "owner": c.owner,
                                       "loop": c.loop, "text": c.text, "src": c.src})
        # function ranges in woven coordinates
        def map_pos(p, after):
            # position in woven text of original offset p
            o = 0
            delta = 0
            best = None
            for (op, wp) in posmap:
                if op <= p:
                    best = (op, wp)
                else:
                    break
            return best
        # simpler: recompute by scanning edits
        edits = sorted(fw.edits, key=lambda e: (e.pos, 0 if e.dele == 0 else 1, e.seq))

        def to_woven(p, include_inserts_at_p):
            off = 0
            for e in edits:
                if e.pos < p or (e.pos == p and include_inserts_at_p):
                    off += len(e.text) - e.dele
                else:
                    break
            return p + off
        for (key, cs, ce, mode) in fw.fn_ranges:
            ws = to_woven(cs, False)
            we = to_woven(ce, True)
            spec = fnspecs.get(key)
            anchors["functions"].append({"file": rel, "key": key, "mode": mode,
                                         "line_start": line_of(woven, ws) + shift,
                                         "line_end": line_of(woven, we) + shift,
                                         "tags": (spec.tags if spec else []),
                                         "contracted": spec is not None})
        all_specs[rel] = fnspecs
        scan_proof_fns(woven, rel, shift, anchors)
    unc = sorted("%s::%s" % (f["file"], f["key"]) for f in anchors["functions"] if not f["contracted"])
    # functions whose bodies Verus does not verify (external_body: contract assumed; external /
    # uncontracted: outside): their token streams are pinned, so that an edit is never passed over
    # silently by a tier that does not run the Kani units (or, for reviewed-only glue, by any tier)
    unverified = set("%s::%s" % (f["file"], f["key"]) for f in anchors["functions"] if f["mode"] in ("external", "external_body") or not f["contracted"])
    allh = fn_hashes(repo)
    pinned = dict((k, v) for k, v in allh.items() if k in unverified)
    if record_baseline:
        new_baseline["__uncontracted__"] = unc
        new_baseline["__pinned__"] = pinned
        json.dump(new_baseline, open(bp, "w"), indent=1, sort_keys=True)
    else:
        # functions that exist in this tree, have no contract and did not exist on the tree the
        # contracts were written for: their callers see no postcondition at all, so a failure in
        # a caller is a missing contract, not a verdict about the code (verus_run -> undecided)
        known = set(BASELINE.get("__uncontracted__", []))
        report["new_functions"] = [u for u in unc if u not in known] if known else []
        base_pinned = BASELINE.get("__pinned__", {})
        report["pinned_changed"] = sorted(k for k in base_pinned if pinned.get(k) != base_pinned[k])
    # vacuity probes: one proof fn per contracted function, `requires` = its preconditions,
    # `ensures false`; every probe must FAIL (a probe that verifies = contradictory precondition)
    probes = report.get("vacuity", [])
    anchors["vacuity_probes"] = len(probes)
    with open(os.path.join(out, "src", "verif_vacuity.rs"), "w", encoding="utf-8") as fh:
        fh.write("#![allow(unused_imports)]\nuse vstd::prelude::*;\nuse std::ops::Range;\n"
                 "use crate::buffer::*; use crate::cell::*; use crate::charset::*; use crate::color::*; use crate::line::*;\n"
                 "use crate::parser::*; use crate::pen::*; use crate::tabs::*; use crate::terminal::*; use crate::vt::*;\n"
                 "use crate::terminal::cursor::*; use crate::terminal::dirty_lines::*; use crate::MEM_MAX;\n"
                 "verus! {\n" + "\n".join(probes) + "\n} // verus!\n")
    report["vacuity"] = len(probes)
    # extra modules (lemmas, vacuity)
    lem_dir = os.path.join(contracts_dir, "lemmas")
    if os.path.isdir(lem_dir):
        for f in sorted(os.listdir(lem_dir)):
            if f.endswith(".rs"):
                shutil.copy(os.path.join(lem_dir, f), os.path.join(out, "src", "verif_" + f))
                scan_proof_fns(open(os.path.join(lem_dir, f), encoding="utf-8").read(), "src/verif_" + f, 0, anchors)
    for f in ("Cargo.toml", "Cargo.lock"):
        if os.path.exists(os.path.join(repo, f)):
            shutil.copy(os.path.join(repo, f), os.path.join(out, f))
    return anchors


def lib_extra(contracts_dir, extra):
    out = ["pub mod verif_vacuity;\n"]
    lem_dir = os.path.join(contracts_dir, "lemmas")
    if os.path.isdir(lem_dir):
        for f in sorted(os.listdir(lem_dir)):
            if f.endswith(".rs"):
                out.append("pub mod verif_%s;\n" % f[:-3])
    std = os.path.join(contracts_dir, "std_specs.rs")
    if os.path.exists(std):
        out.append("verus! {\n" + open(std, encoding="utf-8").read() + "\n} // verus!\n")
    return "".join(out) + (extra or "")


def main():
    import argparse
    ap = argparse.ArgumentParser()
    ap.add_argument("--repo", default="/repo")
    ap.add_argument("--out", required=False)
    ap.add_argument("--self-test", action="store_true")
    ap.add_argument("--record-baseline", action="store_true", help="store the first tokens of every statement-anchored hint (run on the tree the contracts were written for)")
    args = ap.parse_args()
    if args.self_test:
        ok = True
        for rel in SRC_FILES:
            s = open(os.path.join(args.repo, rel), encoding="utf-8").read()
            if untokenize(lex(s)) != s:
                print("ROUNDTRIP-FAIL", rel)
                ok = False
        print("weave self-test:", "ok" if ok else "FAILED")
        sys.exit(0 if ok else 2)
    try:
        anchors = weave_tree(args.repo, args.out, record_baseline=args.record_baseline)
    except WeaveError as e:
        print("WEAVE-ERROR:", e)
        sys.exit(2)
    json.dump(anchors, open(os.path.join(args.out, "anchors.json"), "w"), indent=1)
    print("woven %d files, %d clauses, %d functions; N1=%d N2=%d N3=%d" % (
        len(SRC_FILES), len(anchors["clauses"]), len(anchors["functions"]),
        len(anchors["normalisations"]["N1"]), len(anchors["normalisations"]["N2"]),
        anchors["normalisations"]["N3"]))


if __name__ == "__main__":
    main()
