#!/usr/bin/env python3
"""(Re)generate MANIFEST.json from the table below."""
import json, os
V = os.path.dirname(os.path.abspath(__file__))
NOTE = ("Trusted: Verus+Z3, Kani+CBMC, rustc; std specs in contracts/std_specs.rs; allocation bound MEM_MAX=2^59; "
        "external_body contracts (checked by Kani units, complete or bounded as stated in the evidence); weaving "
        "normalisations N1-N4; transcription of the reference tables into spec functions.")
CLAIMS = {
 "C01": ("proof", "Verus proves, for every verified function body of the real crate, absence of overflow/underflow, out-of-range indexing/slicing, unwrap on None and violated callee preconditions under the proved invariant wf(), and termination of every loop (decreases); functions outside Verus's subset are external_body/external and covered by Kani units or listed as not covered.", "5/C01"),
 "C02": ("proof", "Terminal::wf()/Buffer::wf()/Parser::wf() (geometry, cursor range, wrap-pending, last line unwrapped, dirty vector length, saved contexts inside the screen) are established by the constructors and preserved by every method including execute, resize and Vt::feed; view()/lines()/changes() postconditions give the observable half.", "5/C02"),
 "C03": ("proof", "Parser::feed is proved equal to a state x character-class transcription of Williams' table for all 14 states and all chars; execute/esc_dispatch against C0/C1 and ESC tables (7-bit = 8-bit); Terminal::execute dispatches each Function to exactly its control function's postcondition; csi_dispatch, SgrOps::next and Parser::clear are external_body contracts checked by Kani.", "5/C03"),
 "C04": ("proof", "Terminal::print carries the full case-split postcondition of the statement (translation table, overwrite/insert, last-column rule, deferred wrap incl. region scroll, frame); Charset::translate is proved against the written-out VT100 glyph table; Buffer/Line primitives carry cell-level facts. One listed finding (F1).", "5/C04"),
 "C05": ("proof", "Every cursor-movement control function has a postcondition in the vocabulary of the statement (up/down targets with margin rule, clamped addressing, origin mode, missing/0 = 1) plus a frame clause proving no cell, mode, margin or tab changes; proved for all parameters, geometries and start positions.", "5/C05"),
 "C06": ("proof", "Buffer::scroll_up/scroll_down are proved row-by-row (shift by min(n, height), blanks in the pen, rows outside untouched, scrollback prefix untouched, pushed rows appended in order); all region helpers, IL/DL, LF/NEL/RI pass the right range; every other function's frame keeps the active buffer or its scrollback; DECSTBM validity.", "5/C06"),
 "C07": ("proof", "Buffer::erase for all seven modes, insert, delete and the Terminal wrappers ED/EL/ECH/ICH/DCH/DECALN are proved cell-by-cell against extent predicates written from the statement, with frames for cursor, modes and other rows.", "5/C07"),
 "C08": ("proof", "Terminal::sgr is proved to be the left fold of apply_sgr over the operation list; Pen mutators/accessors are proved independent (disjoint non-zero masks); blank/printed cells carry exactly the pen (Cell/Line/Buffer clauses). SgrOps::next decoding is a Kani unit.", "5/C08"),
 "C10": ("proof", "Verus proves for all contents, cursors and (cols,rows)->(cols',rows'): logical_position / relative_position compute exactly the cursor's logical line index and offset (ends_before / run_before / at_logical); Buffer::resize returns a cursor in the same logical line at the same offset (incl. wrap-pending, the cursor-above-the-view correction, truncation below the cursor, view re-anchoring) and keeps every logical line above the cursor's line up to trailing blanks; Line::extend / contract / trim keep row ++ rest cell for cell and drop only trailing default cells of a row that ends its logical line; carried to Terminal::reflow/resize. ASSUMED (external_body, outside Verus: Option::or_else with a capturing closure over a generic iterator, collect): the contract of reflow()/Reflow::next - rows at the new width, number of logical lines kept, every logical line kept up to trailing blanks - checked only by bounded Kani units (<= 3 rows, widths <= 3, thorough tier, may time out) and Line::{trailers, expand} (width <= 3). The content half of C10 is therefore proved relative to that assumption, not unconditionally.", "5/C10"),
 "C12": ("proof", "Vt::feed's contract (parser step, then execute or nothing); non-interference lemma for every control function (the visible result does not depend on dirty flags, trim flag, scrollback content or limit); chunking theorem by induction over runs with arbitrary silent steps (changes(), gc()) in between. feed_str = fold of feed + changes + gc is a bounded Kani unit. One listed finding (F2: feed() never trims, so lines() differs on the alternate screen).", "5/C12"),
 "C13": ("proof", "trim_ok (trim pending or scrollback within the hard limit) is part of the proved invariant and re-established by every mutator; hard == soft + soft/10 is a checked closure contract; the alternate buffer carries limit 0; lemma_c13_bound gives the lines() bound once trim_needed is false. Buffer::gc / trim_scrollback / Terminal::gc (drain exactness, also when the iterator is dropped unconsumed) are bounded Kani units.", "5/C13"),
 "C14": ("proof", "Scrollback theorem: for any session without RIS/resize, lines handed out so far ++ limited terminal's primary lines == unlimited terminal's primary lines, by induction from per-function growth lemmas (lines only grow at the scrollback/view boundary, identically in both runs) and the gc relation; gc_rel on the real Terminal::gc is a bounded Kani unit. The TextCollector corollary (String code) is not claimed.", "5/C14"),
 "C15": ("proof", "Every Terminal method and execute carries dirty_sound: a view row whose cells differ from the start of the call is flagged and no flag is lost within a call; changes() returns exactly the flagged indices, sorted, and clears them (to_vec is a Kani unit).", "5/C15"),
 "C16": ("proof", "Frame clauses prove that while the alternate screen is active no method other than the switches/hard reset touches other_buffer or the primary's saved context; the switches swap exactly, the fresh alternate buffer is blank in the current pen, reflow with unchanged size is the identity.", "5/C16"),
 "C17": ("proof", "save_cursor/restore_cursor store and re-establish exactly (col clamped, row, pen, origin, auto-wrap); saved_ctx is in the frame of every other method except soft/hard reset, the switches (swap) and reflow (clamp into the screen).", "5/C17"),
 "C18": ("proof", "Terminal-level guards, fallbacks and resize maintenance are proved by Verus against contracts of tabs.rs; the tabs.rs functions themselves (iterator adapters, binary_search) are outside Verus's subset and are checked against those same contracts by Kani harnesses with stated bounds.", "5/C18"),
 "C19": ("proof", "Terminal::new and hard_reset are both proved to satisfy is_fresh(cols, rows, limit), a field-by-field description of the power-on state; from any parser state ESC then c leads to Ground with cleared parameters and dispatches Ris (Williams table + esc_table).", "5/C19"),
 "C20": ("proof", "From the proved Williams table: every string state swallows its payload returning None; Vt::feed leaves the terminal untouched when the parser returns None; unassigned C0/C1, unimplemented ESC and CSI finals/markers/intermediates map to None in the proved tables (csi table via Kani).", "5/C20"),
}
NA = {
 "C11": "dump() builds its output with format!/String pushes/iterator chains: no Verus contract can state the content of a formatted string and the property quantifies over all continuations of an interpreter run on that string; Kani cannot push a formatted dump through parser+terminal symbolically within any budget. Only panic-freedom of the arithmetic reachable there is discussed under C01.",
 "C09": "whole-history inductive invariant over print/CR/LF plus String-level text()/TextUnwrapper code outside Verus's subset; the per-step mechanism (wrap marks, scrollback push) is proved under C04/C06 but the protocol-level lemma was not closed, so the property is not claimed.",
}
m = {
 "version": 1,
 "setup_cmd": "cd /verif && ./check.py --setup",
 "hooks": {"guard": "avt_verif", "enable": "none needed: contracts are spliced into a scratch copy of /repo on every run (weave.py); Kani harness modules are appended to that copy",
           "baseline_off_cmd": "cd /repo && cargo test --workspace --no-fail-fast --offline", "source_commits": [], "add_only": True},
 "engines": [
   {"name": "verus", "path": "/verif/verus_run.py", "serves_properties": sorted(CLAIMS), "kind_free_text": "Verus 0.2026.09.13 on the whole real crate, contracts spliced in place by weave.py"},
   {"name": "kani", "path": "/verif/kani_run.py", "serves_properties": ["C01", "C02", "C03", "C06", "C08", "C10", "C12", "C13", "C14", "C15", "C16", "C18", "C19", "C20"], "kind_free_text": "Kani 0.68 harnesses appended to the real source files for functions outside Verus's Rust subset"}],
 "checks": [], "not_applicable": [],
 "notes": "Contract-based deductive verification of the real code. exit 2 = undecided (lost anchor, front-end rejection, resource limit), never an alarm. known_findings.txt lists repaired defects (fixed:) and recorded findings (finding:).",
}
for pid in sorted(CLAIMS):
    lvl, text, ref = CLAIMS[pid]
    m["checks"].append({"property_id": pid, "quick_cmd": "./check.py %s --tier quick" % pid, "thorough_cmd": "./check.py %s --tier thorough" % pid,
                        "evidence_file": "/verif/evidence/%s.json" % pid, "replay_cmd_template": "./check.py --replay {path}", "engine": "verus+kani",
                        "level_claimed": {"category": lvl, "text": text, "design_ref": "DESIGN.md section " + ref},
                        "level_note": NOTE, "technique": "contract-based deductive verification (Verus requires/ensures/invariants spliced into the real code; Kani harnesses for leaf functions outside Verus's subset)"})
for pid in sorted(NA):
    if pid not in CLAIMS:
        m["not_applicable"].append({"property_id": pid, "reason": NA[pid]})
json.dump(m, open(os.path.join(V, "MANIFEST.json"), "w"), indent=1)
print("claimed", sorted(CLAIMS), "n/a", [x["property_id"] for x in m["not_applicable"]])
