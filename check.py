#!/usr/bin/env python3
"""Per-property check:  ./check.py Cxx [--tier quick|thorough]   |   ./check.py --replay FILE
                         ./check.py --setup

exit 0  every obligation tagged with the property was discharged (KNOWN-FINDING lines for
        listed findings)
exit 1  an obligation of the committed contract set that is tagged with the property failed:
        prints  VIOLATION property=Cxx replay=<path>[ no-failing-input-found]
exit 2  undecided (weaving error / lost anchor, Verus front-end rejection, resource limit,
        Kani timeout, vacuous precondition): never an alarm
"""
import hashlib
import json
import os
import re
import subprocess
import sys
import time

VERIF = os.path.dirname(os.path.abspath(__file__))
sys.path.insert(0, VERIF)
import verus_run  # noqa: E402
import weave      # noqa: E402
import kani_run   # noqa: E402

REPO = os.environ.get("VERIF_REPO", "/repo")
EVID = os.path.join(VERIF, "evidence")
REPLAYS = os.path.join(VERIF, "replays")
PROPS = {}
for line in open(os.path.join(VERIF, "properties.jsonl")):
    if line.strip():
        p = json.loads(line)
        PROPS[p["id"]] = p

NOT_APPLICABLE = {"C11"}

# glue outside both engines (closures over &mut self fields, Box<dyn Iterator + '_>): three to five lines each,
# reviewed by hand; an edit leaves the listed properties undecided (exit 2)
REVIEW_ONLY = {
    "Vt::feed_str": ("C02", "C12", "C13", "C14", "C15", "C20"),
    "Vt::resize": ("C02", "C10", "C13", "C15"),
}

LEVELS = {  # level reported in the evidence (must match MANIFEST)
}


def known_findings():
    out = {}
    p = os.path.join(VERIF, "known_findings.txt")
    if not os.path.exists(p):
        return out
    for line in open(p, encoding="utf-8"):
        line = line.strip()
        m = re.match(r"^finding:\s+property=(C\d+)\s+obligation=(\S+)\s+::\s+(.*)$", line)
        if m:
            out[(m.group(1), m.group(2))] = m.group(3)
    return out


def trusted_scan(contracts_dir):
    """mechanical scan of the contract set for everything that is assumed rather than proved"""
    items = []
    for root, _, files in os.walk(contracts_dir):
        for f in sorted(files):
            p = os.path.join(root, f)
            txt = open(p, encoding="utf-8").read()
            rel = os.path.relpath(p, VERIF)
            if f.endswith(".spec"):
                cur = None
                for line in txt.split("\n"):
                    if line.startswith("fn ") or line.startswith("item "):
                        cur = line.strip()
                    elif line.strip() == "mode: external_body" and cur:
                        items.append("%s: %s  [external_body: body not checked by Verus; contract assumed, see kani/]" % (rel, cur))
                    elif line.strip() == "mode: external" and cur:
                        items.append("%s: %s  [external: outside the verified set, no contract]" % (rel, cur))
            else:
                for m in re.finditer(r"(assume_specification[^\[]*\[\s*([^\]]+)\]|external_type_specification|#\[verifier::external_body\]\s*pub (?:proof )?fn (\w+)|pub uninterp spec fn (\w+)|\bassume\s*\(|\badmit\s*\(|global size_of usize)", txt):
                    what = m.group(0).split("\n")[0][:110]
                    items.append("%s: %s" % (rel, " ".join(what.split())))
    return items


def obligations_for(anchors, prop):
    """named obligations carrying the property's tag: clauses + one body-safety obligation per
    verified function whose default tags include the property"""
    obs = []
    for c in anchors["clauses"]:
        if prop in c["tags"]:
            if c["kind"] == "invariant":
                name = "%s/loop%d/%s" % (c["owner"], c["loop"], c["id"])
            else:
                name = "%s/%s" % (c["owner"], c["id"])
            obs.append((name, c))
    for f in anchors["functions"]:
        tags = f["tags"] or (["C01"] if f["mode"] == "verify" else [])
        if f["mode"] in ("verify",) and prop in tags:
            obs.append(("%s/safety" % f["key"], None))
        if f["mode"] == "proof" and prop in f["tags"] and "KF" not in f["tags"]:
            obs.append((f["key"], None))
    return obs


def write_replay(prop, fail, res, extra=""):
    os.makedirs(REPLAYS, exist_ok=True)
    safe = re.sub(r"[^A-Za-z0-9_.-]+", "_", fail["obligation"])[:120]
    path = os.path.join(REPLAYS, "%s-%s.txt" % (prop, safe))
    c = fail.get("clause")
    with open(path, "w", encoding="utf-8") as fh:
        fh.write("property: %s\nobligation: %s\nengine: %s\nmessage: %s\n" % (prop, fail["obligation"], fail.get("engine", "verus"), fail["message"]))
        fh.write("location: %s:%s (woven copy of /repo)\n" % (fail.get("file"), fail.get("line")))
        if c:
            fh.write("clause (%s, %s): %s\n" % (c["kind"], c["src"], c["text"]))
        fh.write("contract-set sha256: %s\n" % contracts_hash())
        fh.write("checker: %s\n" % res.cmd)
        fh.write("failing input: none (deductive verifier gives no model; see message)\n" if not extra else "")
        fh.write("\n--- verifier output ---\n%s\n%s" % (fail.get("rendered", ""), extra))
    return path


def contracts_hash():
    h = hashlib.sha256()
    d = os.path.join(VERIF, "contracts")
    for root, _, files in sorted(os.walk(d)):
        for f in sorted(files):
            h.update(f.encode())
            h.update(open(os.path.join(root, f), "rb").read())
    return h.hexdigest()


def main():
    args = sys.argv[1:]
    if args and args[0] == "--setup":
        verus_run.ensure_deps(REPO)
        ok = subprocess.call([sys.executable, os.path.join(VERIF, "weave.py"), "--self-test", "--repo", REPO]) == 0
        kani_run.setup(REPO)
        sys.exit(0 if ok else 2)
    if args and args[0] == "--replay":
        path = args[1]
        print(open(path, encoding="utf-8").read())
        txt = open(path, encoding="utf-8").read()
        m = re.search(r"^replay-cmd: (.*)$", txt, re.M)
        if m:
            sys.exit(subprocess.call(m.group(1), shell=True, cwd=VERIF))
        # a Verus obligation: re-derive it from /repo's current tree and report whether it fails again
        mo = re.search(r"^obligation: (.*)$", txt, re.M)
        mp = re.search(r"^property: (\S+)$", txt, re.M)
        if mo and mp:
            res = verus_run.run(REPO, threads=8)
            again = [f for f in res.failures if f["obligation"] == mo.group(1).strip()]
            print("--- replay on /repo's current working tree ---")
            if again:
                print("obligation %s fails again: %s" % (mo.group(1).strip(), again[0]["message"]))
                print("VIOLATION property=%s replay=%s no-failing-input-found" % (mp.group(1), path))
                sys.exit(1)
            if res.undecided:
                print("undecided: %s" % res.undecided[0]["reason"])
                sys.exit(2)
            print("obligation %s is discharged on the current tree" % mo.group(1).strip())
        sys.exit(0)
    if not args:
        print(__doc__)
        sys.exit(2)
    prop = args[0]
    tier = os.environ.get("VERIF_TIER", "quick")
    if "--tier" in args:
        tier = args[args.index("--tier") + 1]
    seed = int(os.environ.get("VERIF_SEED", "0") or 0)
    if prop not in PROPS:
        print("unknown property", prop)
        sys.exit(2)
    t0 = time.time()
    os.makedirs(EVID, exist_ok=True)
    evid_path = os.path.join(EVID, prop + ".json")
    if os.path.exists(evid_path):
        os.remove(evid_path)

    kf = known_findings()
    # functions Verus does not verify are pinned by token hash (contracts/anchor_baseline.json)
    changed = weave.pinned_changed(REPO)
    # ---- Kani units of this property run concurrently with the Verus pass ---------------------
    import threading
    kbox = {}

    def _kani():
        try:
            kbox["res"] = kani_run.run_for_property(REPO, prop, tier, changed)
        except Exception as e:  # tool problem: undecided, never an alarm
            kbox["res"] = {"violations": [], "undecided": ["kani driver failed: %s" % e], "obligations": 0, "samples": [],
                           "units": [], "cmds": [], "trusted": [], "bounded": 0}
    kt = threading.Thread(target=_kani)
    kt.start()
    # ---- Verus: whole crate, woven from /repo's working tree -------------------------------
    res = verus_run.run(REPO, vacuity=(tier == "thorough" or prop in ("C01", "C02")), threads=8)
    # undecided items tied to one function only leave the properties tagged on that function undecided
    undecided = [u for u in res.undecided if "tags" not in u or prop in u["tags"]]
    violations, known = [], []
    for f in res.failures:
        if prop not in f["tags"]:
            continue
        key = (prop, f["obligation"])
        if key in kf:
            known.append((f, kf[key]))
        else:
            violations.append(f)
    # listed findings that no longer fail are simply not printed (fixed entries suppress nothing)
    kt.join()
    kres = kbox["res"]
    # changed functions that nothing machine-checks: reviewed-only glue (REVIEW_ONLY), or functions with
    # an assumed contract whose units did not decide (timeout) -> the properties resting on them are undecided
    for key in changed:
        short = key.split("::", 1)[1] if "::" in key else key
        if prop in REVIEW_ONLY.get(short, ()):
            undecided.append({"reason": "%s changed: the property rests on the reviewed shape of this function (no contract, no unit can decide it)" % short, "rendered": ""})
    if prop == "C01":
        # C01 (no panic on any input) is claimed for the verified and unit-checked functions only; an edit of a
        # function outside every engine (dump code, TextCollector, Display/Debug impls ...) cannot be judged
        all_units = kani_run.units()
        for key in changed:
            short = key.split("::", 1)[1] if "::" in key else key
            if short not in REVIEW_ONLY and not any(kani_run.touches(u, [key]) for u in all_units):
                undecided.append({"reason": "%s changed: it is outside Verus's subset and no Kani unit checks it, so C01 cannot be decided for it" % short, "rendered": ""})
    if changed and kres.get("timeouts"):
        late = [u["name"] for u in kani_run.units() if u["name"] in kres["timeouts"] and kani_run.touches(u, changed)]
        if late:
            undecided.append({"reason": "function(s) with an assumed contract changed (%s) and the unit(s) %s did not finish" % (", ".join(k.split("::", 1)[1] for k in changed)[:200], ", ".join(late)), "rendered": ""})
    for u in kres["undecided"]:
        undecided.append({"reason": "kani: " + u, "rendered": ""})
    for kv in kres["violations"]:
        key = (prop, kv["obligation"])
        if key in kf:
            known.append((kv, kf[key]))
        else:
            violations.append(kv)

    # ---- report ------------------------------------------------------------------------------
    for f, why in known:
        print("KNOWN-FINDING: property=%s %s :: %s" % (prop, f["obligation"], why))
    for f in violations:
        print("OBLIGATION-FAILED %s [%s] %s: %s (%s:%s)" % (f["obligation"], ",".join(f["tags"]), f.get("engine", "verus"), f["message"], f.get("file"), f.get("line")))
    rc = 0
    if violations:
        rc = 1
        for f in violations:
            if f.get("engine") == "kani" and f.get("harness"):
                # Kani gives a counterexample: replay it as a unit test against the real function
                pb = kani_run.playback(REPO, f["harness"])
                extra = "\n--- Kani concrete playback (unit test holding the counterexample) ---\n%s\n--- cargo kani playback on the real code ---\n%s\nreproduced: %s\nreplay-cmd: python3 kani_run.py --only %s\n" % (
                    pb["test"], pb["output"], pb["reproduced"], f["harness"]["name"])
                f2 = dict(f)
                f2.pop("harness", None)
                path = write_replay(prop, f2, res, extra)
                print("VIOLATION property=%s replay=%s%s" % (prop, path, "" if pb["reproduced"] else " no-failing-input-found"))
                continue
            if f.get("replay"):
                print("VIOLATION property=%s replay=%s" % (prop, f["replay"]))
            else:
                path = write_replay(prop, f, res)
                print("VIOLATION property=%s replay=%s no-failing-input-found" % (prop, path))
    elif undecided:
        rc = 2
        for u in undecided:
            print("UNDECIDED %s" % u["reason"])

    # ---- evidence ----------------------------------------------------------------------------
    anchors = res.anchors or {"clauses": [], "functions": []}
    obs = obligations_for(anchors, prop)
    if rc == 0 and (len(obs) == 0 or res.verified == 0):
        # vacuity guard: a run that generated or verified nothing must not report success
        rc = 2
        undecided.append({"reason": "no obligation generated / nothing verified for this property (vacuous run)", "rendered": ""})
        print("UNDECIDED no obligation generated or nothing verified for %s" % prop)
    failed_names = set(f["obligation"] for f in violations)
    n_obl = len(obs) + kres["obligations"]   # bounded Kani units are NOT counted as proof obligations
    n_failed = len([1 for (n, _) in obs if n in failed_names]) + len([v for v in violations if v.get("engine") == "kani"])
    fns = []
    for f in anchors["functions"]:
        tags = f["tags"] or (["C01"] if f["mode"] == "verify" else [])
        carries = prop in tags or any(c["owner"] == f["key"] and prop in c["tags"] for c in anchors["clauses"])
        if carries:
            fns.append({"function": f["key"], "file": f["file"],
                        "status": {"verify": "verified by Verus", "external_body": "contract assumed in Verus (external_body); see kani units",
                                   "proof": "lemma proved by Verus", "external": "outside verified set"}.get(f["mode"], f["mode"])})
    samples = []
    for (n, c) in obs[:1] + obs[len(obs) // 2:len(obs) // 2 + 2] + obs[-1:]:
        samples.append({"obligation": n, "clause": (c["text"] if c else "body safety: no overflow/underflow, index in bounds, unwrap on Some, callee preconditions, loop termination")})
    samples.extend(kres["samples"][:3])
    slow = sorted(res.functions.items(), key=lambda kv: -kv[1]["time_ms"])[:10]
    level = LEVELS.get(prop, "proof")
    ev = {
        "property_id": prop, "tier": tier, "seed": seed, "level": level,
        "coverage": {
            "obligations": n_obl, "discharged": max(0, n_obl - n_failed),
            "checker_cmd": res.cmd + " ;; " + "; ".join(kres["cmds"][:3]),
            "trusted_base": trusted_scan(os.path.join(VERIF, "contracts")) + kres["trusted"],
            "samples": samples,
            "functions_under_contract": fns,
            "verus": {"functions_verified": res.verified, "errors_reported": res.errors, "smt_ms_total": res.smt_ms,
                      "slowest_ms": [{"function": k, "ms": v["time_ms"], "rlimit": v["rlimit"]} for k, v in slow],
                      "back_end": "Verus 0.2026.09.13 / Z3 (smt.dt_lazy_splits=2)",
                      "vacuity_probes": res.vacuity},
            "kani": kres["units"],
            "kani_bounded_units": kres.get("bounded", 0),
            "kani_units_not_decided_timeout": kres.get("timeouts", []),
            "unverified_functions_changed_since_baseline": changed,
            "kani_units_escalated_from_thorough": kres.get("escalated", []),
            "evaluations": n_obl + kres.get("cbmc_checks", 0),
            "distinct_nontrivial": max(2, res.verified + kres.get("covers_hit", 0)),
            "rule": "evaluations = named Verus obligations of this property + individual CBMC checks of its Kani units; distinct_nontrivial = functions/lemmas verified by Verus + Kani cover properties reached (each a distinct reachable scenario)",
            "weaving": {"normalisations": anchors.get("normalisations"), "files": anchors.get("files"),
                        "exec_token_stream_identical": anchors.get("body_hash_ok")},
            "known_findings_reported": [f["obligation"] for f, _ in known],
            "undecided": [u["reason"] for u in undecided],
            "contracts_sha256": contracts_hash(),
        },
        "assumptions": ASSUMPTIONS,
        "wall_s": round(time.time() - t0, 1),
        "violations": len(violations),
    }
    json.dump(ev, open(evid_path, "w"), indent=1)
    print("%s tier=%s obligations=%d discharged=%d verus_verified_fns=%d kani_units=%d known_findings=%d undecided=%d wall=%.0fs" % (
        prop, tier, n_obl, ev["coverage"]["discharged"], res.verified, len(kres["units"]), len(known), len(undecided), ev["wall_s"]))
    sys.exit(rc)


ASSUMPTIONS = [
    "Verus 0.2026.09.13 + Z3, Kani 0.68 + CBMC 6.11 and rustc are sound; 64-bit target (global size_of usize == 8)",
    "std / dependency specifications in contracts/std_specs.rs (slice fill/rotate, Vec IndexMut for ranges, Vec::drain yields the range in order, Vec<T>: Extend<&T> appends in order, str::trim_end = strip trailing White_Space, str::trim_end_matches(char) = strip trailing occurrences, char::is_ascii_control / is_control / is_ascii, Line::clone structural, Range::clone, mem::take, char ordering, rgb::RGB8 opaque) and vstd's own std specifications (Vec, slices, String::push_str/clear/is_empty, str::to_owned, Take<slice::Iter>)",
    "allocation: sizes, scrollback limits and line counts are below 2^59 (MEM_MAX) and allocation never fails",
    "external_body contracts are assumptions inside Verus; each is checked on the real code by a Kani unit, complete or up to its stated bound (see coverage.kani), except Line::text (chars().collect()), Cell::width, Color::rgb, SavedCtx::is_default, TextUnwrapper::new; reflow's contract (rows at the new width, logical lines and their count kept) is checked only up to 3 rows / width 3",
    "Vt::feed_str (fold of Parser::feed / Terminal::execute, then changes() and gc()) and Vt::resize are reviewed-only glue outside both engines; their token streams are pinned and an edit leaves the properties resting on them undecided",
    "weaving normalisations N1 (pattern parameters), N2 (destructuring assignment), N3 (visibility -> pub), N4 (closure return type + braces) are semantics-preserving; all other inserted text is ghost and erased",
    "the transcription of Paul Williams' parser diagram, the VT100 special-graphics table and the SGR table into spec functions (contracts/parser.extra.rs, charset.extra.rs, pen.extra.rs)",
    "safe Rust without statics / interior mutability / I/O is deterministic (used to lift per-call contracts to whole histories)",
]

if __name__ == "__main__":
    main()
