#!/usr/bin/env python3
"""Kani side: harness modules of /verif/kani/*.rs are appended to the *real* source files in a
scratch copy of /repo (so they call the real private functions), and run with cargo kani.

Header of each kani/*.rs file:
    // append-to: src/tabs.rs
    // harness: NAME props=C18,C05 kind=complete|bounded tier=quick|thorough timeout=300 obligation=Tabs::expand/E1 bound="..."
"""
import json
import os
import re
import shutil
import subprocess
import sys
import tempfile
import time

VERIF = os.path.dirname(os.path.abspath(__file__))
KDIR = os.path.join(VERIF, "kani")


def units():
    out = []
    if not os.path.isdir(KDIR):
        return out
    for f in sorted(os.listdir(KDIR)):
        if not f.endswith(".rs"):
            continue
        txt = open(os.path.join(KDIR, f), encoding="utf-8").read()
        m = re.search(r"^// append-to:\s*(\S+)", txt, re.M)
        target = m.group(1) if m else None
        for hm in re.finditer(r"^// harness:\s*(\S+)\s+(.*)$", txt, re.M):
            d = {"file": f, "target": target, "name": hm.group(1)}
            for kv in re.finditer(r'(\w+)=("([^"]*)"|\S+)', hm.group(2)):
                d[kv.group(1)] = kv.group(3) if kv.group(3) is not None else kv.group(2)
            d["props"] = d.get("props", "").split(",")
            d["timeout"] = int(d.get("timeout", "300"))
            d.setdefault("kind", "bounded")
            d.setdefault("tier", "quick")
            d.setdefault("obligation", "kani:" + d["name"])
            out.append(d)
    return out


def prepare(repo, work):
    dst = os.path.join(work, "repo")
    shutil.copytree(repo, dst, ignore=shutil.ignore_patterns("target", ".git"))
    if not os.path.exists(os.path.join(dst, "Cargo.lock")) and os.path.exists("/repo/Cargo.lock"):
        shutil.copy("/repo/Cargo.lock", os.path.join(dst, "Cargo.lock"))
    # N3 (visibility -> pub) on the scratch copy, exactly as for the Verus pass, so that a harness
    # appended to one module can build and inspect the private structs of another
    import weave
    for rel in weave.SRC_FILES:
        sp = os.path.join(dst, rel)
        if not os.path.exists(sp):
            raise RuntimeError("kani: source file %s missing" % rel)
        src = open(sp, encoding="utf-8").read()
        fw = weave.FileWeaver(rel, src, {}, {}, "", {"N1": [], "N2": [], "N3": 0})
        fw.weave()
        txt, _, _, _ = fw.render(kinds={"N3"})
        open(sp, "w", encoding="utf-8").write(txt)
    by_target = {}
    for f in sorted(os.listdir(KDIR)):
        if not f.endswith(".rs"):
            continue
        txt = open(os.path.join(KDIR, f), encoding="utf-8").read()
        m = re.search(r"^// append-to:\s*(\S+)", txt, re.M)
        if not m:
            continue
        by_target.setdefault(m.group(1), []).append((f, txt))
    for target, lst in by_target.items():
        p = os.path.join(dst, target)
        if not os.path.exists(p):
            raise RuntimeError("kani: target file %s missing" % target)
        with open(p, "a", encoding="utf-8") as fh:
            for (f, txt) in lst:
                fh.write("\n// ---- appended by /verif/kani_run.py from kani/%s ----\n" % f)
                fh.write(txt)
    os.makedirs(os.path.join(dst, ".cargo"), exist_ok=True)
    with open(os.path.join(dst, ".cargo", "config.toml"), "w") as fh:
        fh.write("[net]\noffline = true\n")
    return dst


def _classify(blk, secs):
    """verdict for the output of ONE harness"""
    st, detail = "undecided", ""
    mt = re.search(r"Verification Time: ([0-9.]+)s", blk)
    hsecs = float(mt.group(1)) if mt else secs
    if "VERIFICATION:- SUCCESSFUL" in blk:
        st = "ok"
        if re.search(r"\*\* 0 of \d+ cover properties satisfied", blk):
            st, detail = "undecided", "cover property unreachable (vacuous harness)"
    elif "VERIFICATION:- FAILED" in blk:
        if re.search(r"timed out|out of memory|CBMC failed", blk, re.I) and "Failed Checks:" not in blk:
            st, detail = "timeout", "CBMC timeout / resource failure"
        elif re.search(r"Failed Checks: .*unwinding assertion", blk) and not re.search(r"Failed Checks: (?!.*unwinding assertion)", blk):
            st, detail = "undecided", "unwinding bound too small"
        else:
            st = "fail"
            detail = "\n".join(l for l in blk.split("\n") if "Failed Checks" in l or "File:" in l)[:3000]
    elif "error: could not compile" in blk or "error[E" in blk:
        detail = "harness does not build on this tree\n" + "\n".join(l for l in blk.split("\n") if l.startswith("error"))[:1500]
    else:
        detail = blk[-1500:]
    mc = re.search(r"\*\* (\d+) of (\d+) failed", blk)
    mv = re.search(r"\*\* (\d+) of (\d+) cover properties satisfied", blk)
    return {"status": st, "secs": round(hsecs, 1), "detail": detail,
            "checks": int(mc.group(2)) if mc else 0, "covers": int(mv.group(1)) if mv else 0}


def _cargo_kani(dst, env, names, jobs, tmax):
    cmd = ["cargo", "kani", "-Z", "unstable-options", "-Z", "function-contracts", "-Z", "stubbing",
           "--harness-timeout", "%ds" % tmax, "--exact"]
    if jobs > 1 and len(names) > 1:
        cmd += ["--output-format", "terse", "-j", str(min(jobs, len(names)))]
    for n in names:
        cmd += ["--harness", n]
    t0 = time.time()
    try:
        p = subprocess.run(cmd, cwd=dst, env=env, stdout=subprocess.PIPE, stderr=subprocess.STDOUT, text=True,
                           timeout=tmax * max(1, (len(names) + jobs - 1) // jobs) + 900)
        out = p.stdout
    except subprocess.TimeoutExpired as e:
        out = (e.stdout or "") if isinstance(e.stdout, str) else ""
        out += "\nOVERALL TIMEOUT\n"
    return "CARGO_NET_OFFLINE=true " + " ".join(cmd), out, time.time() - t0


def run_harnesses(repo, hs, jobs=6):
    """returns ({name: {status: ok|fail|timeout|undecided, secs, detail, checks, covers}}, cmds).
    Pass 1 runs all harnesses in parallel and trusts only Kani's by-name summary; every harness
    the summary does not list as verified is re-run alone (pass 2) for an exact verdict."""
    res = {}
    if not hs:
        return res, []
    work = tempfile.mkdtemp(prefix="avt-kani-")
    cmds = []
    try:
        try:
            dst = prepare(repo, work)
        except Exception as e:
            for h in hs:
                res[h["name"]] = {"status": "undecided", "secs": 0, "detail": str(e), "checks": 0, "covers": 0}
            return res, cmds
        env = dict(os.environ, CARGO_NET_OFFLINE="true", CARGO_TARGET_DIR=os.path.join(work, "target"))
        full = {h["name"]: "%s::verif_kani_%s::%s" % (mod_path(h["target"]), h["file"][:-3], h["name"]) for h in hs}
        tmax = max(h["timeout"] for h in hs)
        if len(hs) == 1:
            cmd, out, secs = _cargo_kani(dst, env, [full[hs[0]["name"]]], 1, tmax)
            cmds.append(cmd)
            res[hs[0]["name"]] = _classify(out, secs)
            return res, cmds
        cmd, out, secs = _cargo_kani(dst, env, [full[h["name"]] for h in hs], jobs, tmax)
        cmds.append(cmd)
        if os.path.isdir(os.path.join(VERIF, ".cache")):
            open(os.path.join(VERIF, ".cache", "kani-last.log"), "w").write(out)
        failed = set(re.findall(r"Verification failed for - (\S+)", out))
        done = re.search(r"Complete - (\d+) successfully verified harnesses, (\d+) failures, (\d+) total", out)
        checks = [int(x) for x in re.findall(r"\*\* \d+ of (\d+) failed", out)]
        covers = [int(x) for x in re.findall(r"\*\* (\d+) of \d+ cover properties satisfied", out)]
        # per-thread attribution: "Thread N: Checking harness X..." then a result block "Thread N: ..."
        per = {}
        cur = {}
        parts = re.split(r"^(Thread \d+): ", out, flags=re.M)
        for k in range(1, len(parts) - 1, 2):
            th, body = parts[k], parts[k + 1]
            mh = re.match(r"Checking harness (\S+?)\.\.\.", body)
            if mh:
                cur[th] = mh.group(1)
                body = body[mh.end():]
            if "VERIFICATION:-" in body and th in cur:
                per[cur[th]] = _classify(body, secs)
        redo = []
        for i, h in enumerate(hs):
            fn = full[h["name"]]
            agree = done and int(done.group(3)) == len(hs)
            if agree and fn not in failed and (fn not in per or per[fn]["status"] == "ok"):
                res[h["name"]] = per.get(fn) or {"status": "ok", "secs": round(secs, 1), "detail": "", "checks": 0, "covers": 0}
            elif agree and fn in failed and fn in per and per[fn]["status"] == "timeout":
                res[h["name"]] = per[fn]      # resource verdict: running it again alone would only repeat the wait
            else:
                redo.append(h)
        if covers and min(covers) == 0 and not all(full[h["name"]] in per for h in hs):
            redo = list(hs)      # some harness has an unreachable cover: find out which, exactly
        for h in redo:
            cmd, o1, s1 = _cargo_kani(dst, env, [full[h["name"]]], 1, h["timeout"])
            cmds.append(cmd)
            res[h["name"]] = _classify(o1, s1)
    finally:
        shutil.rmtree(work, ignore_errors=True)
    return res, cmds


def playback(repo, h, keep_dir=None):
    """re-run a failed harness with concrete playback: Kani prints a unit test holding the
    counterexample; the test is appended to the real source file (scratch copy) and executed with
    `cargo kani playback`. Returns dict(test=code, output=text, reproduced=bool)."""
    work = tempfile.mkdtemp(prefix="avt-kanipb-")
    out = {"test": "", "output": "", "reproduced": False}
    try:
        dst = prepare(repo, work)
        env = dict(os.environ, CARGO_NET_OFFLINE="true", CARGO_TARGET_DIR=os.path.join(work, "target"))
        full = "%s::verif_kani_%s::%s" % (mod_path(h["target"]), h["file"][:-3], h["name"])
        cmd = ["cargo", "kani", "-Z", "unstable-options", "-Z", "function-contracts", "-Z", "stubbing", "-Z", "concrete-playback",
               "--concrete-playback=print", "--harness-timeout", "%ds" % h["timeout"], "--exact", "--harness", full]
        p = subprocess.run(cmd, cwd=dst, env=env, stdout=subprocess.PIPE, stderr=subprocess.STDOUT, text=True, timeout=h["timeout"] + 600)
        m = re.search(r"```\s*\n(#\[test\].*?)```", p.stdout, re.S)
        if not m:
            out["output"] = p.stdout[-3000:]
            return out
        test = m.group(1)
        out["test"] = test
        tm = re.search(r"fn (kani_concrete_playback_\w+)", test)
        tname = tm.group(1) if tm else ""
        # put the test inside the harness module of the scratch copy and run it on the real code
        src = os.path.join(dst, h["target"])
        txt = open(src, encoding="utf-8").read()
        marker = "mod verif_kani_%s {\n    use super::*;\n" % h["file"][:-3]
        if marker in txt and tname:
            txt = txt.replace(marker, marker + "\n" + "\n".join("    " + l for l in test.split("\n")) + "\n", 1)
            open(src, "w", encoding="utf-8").write(txt)
            cmd2 = ["cargo", "kani", "playback", "-Z", "concrete-playback", "--", tname]
            p2 = subprocess.run(cmd2, cwd=dst, env=env, stdout=subprocess.PIPE, stderr=subprocess.STDOUT, text=True, timeout=1200)
            out["output"] = p2.stdout[-4000:]
            out["reproduced"] = ("panicked" in p2.stdout or "FAILED" in p2.stdout) and tname in p2.stdout
        if keep_dir:
            os.makedirs(keep_dir, exist_ok=True)
    except Exception as e:
        out["output"] += "\nplayback driver error: %s" % e
    finally:
        shutil.rmtree(work, ignore_errors=True)
    return out


def mod_path(target):
    # src/terminal/dirty_lines.rs -> terminal::dirty_lines
    return target[len("src/"):-len(".rs")].replace("/", "::")


def setup(repo):
    """compile Kani's library once (first cargo kani run is slow)"""
    return 0


def touches(u, changed):
    """does harness `u` check one of the changed (pinned, not Verus-verified) functions?"""
    subs = [x.replace("_", " ") for x in (u.get("fns") or "").split(",") if x]
    return any(sub in key for sub in subs for key in changed)


def run_for_property(repo, prop, tier, changed=()):
    # quick tier: the quick units, plus - escalation - every thorough unit that checks a function
    # whose body differs from the recorded baseline (an edit of a function with an assumed contract
    # is never waved through just because its checking unit is expensive)
    hs = [u for u in units() if prop in u["props"] and (tier == "thorough" or u["tier"] == "quick" or touches(u, changed))]
    out = {"violations": [], "undecided": [], "obligations": 0, "samples": [], "units": [], "cmds": [], "trusted": [],
           "bounded": 0, "cbmc_checks": 0, "covers_hit": 0}
    skipped = [u for u in units() if prop in u["props"] and u not in hs]
    if not hs:
        for u in skipped:
            out["units"].append({"harness": u["name"], "status": "not run in this tier", "kind": u["kind"], "bound": u.get("bound", "")})
        return out
    out["escalated"] = [u["name"] for u in hs if tier != "thorough" and u["tier"] != "quick"]
    res, cmds = run_harnesses(repo, hs)
    out["cmds"] = cmds
    for h in hs:
        r = res.get(h["name"], {"status": "undecided", "secs": 0, "detail": "no result"})
        if h["kind"] == "complete":
            out["obligations"] += 1
        else:
            out["bounded"] += 1
        out["cbmc_checks"] += r.get("checks", 0)
        out["covers_hit"] += r.get("covers", 0)
        out["units"].append({"harness": h["name"], "appended_to": h["target"], "status": r["status"], "kind": h["kind"],
                             "bound": h.get("bound", ""), "secs": r["secs"], "checks_obligation": h["obligation"]})
        out["samples"].append({"obligation": "kani:%s (%s%s) checks %s on the real %s" % (
            h["name"], h["kind"], (", " + h["bound"]) if h.get("bound") else "", h["obligation"], h["target"])})
        if h["kind"] == "bounded":
            out["trusted"].append("kani/%s: %s holds beyond the bound (%s) - bounded stand-in, not proved" % (h["file"], h["obligation"], h.get("bound", "")))
        if r["status"] == "fail":
            out["violations"].append({"obligation": h["obligation"], "tags": h["props"], "engine": "kani", "message": "Kani harness %s failed" % h["name"],
                                      "file": h["target"], "line": None, "rendered": r["detail"], "clause": None, "harness": h})
        elif r["status"] == "timeout":
            # resource exhaustion of the bounded model checker is not a verdict about the code and
            # depends on machine load: recorded, the unit is simply not counted
            out.setdefault("timeouts", []).append(h["name"])
            if h["kind"] == "complete":
                out["obligations"] -= 1
        elif r["status"] != "ok":
            out["undecided"].append("%s: %s" % (h["name"], r["detail"][-300:]))
    for u in skipped:
        out["units"].append({"harness": u["name"], "status": "not run in this tier", "kind": u["kind"], "bound": u.get("bound", "")})
    return out


if __name__ == "__main__":
    import argparse
    ap = argparse.ArgumentParser()
    ap.add_argument("--repo", default="/repo")
    ap.add_argument("--only", action="append")
    ap.add_argument("-j", type=int, default=8)
    a = ap.parse_args()
    hs = [u for u in units() if not a.only or u["name"] in a.only]
    res, cmds = run_harnesses(a.repo, hs, a.j)
    for k, v in res.items():
        print(k, v["status"], v["secs"], flush=True)
        if v["status"] != "ok":
            print(v["detail"])
