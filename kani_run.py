#!/usr/bin/env python3
"""Kani side: harness modules of /verif/kani/*.rs are appended to the *real* source files in a
scratch copy of /repo (so they call the real private functions), and run with cargo kani.

Header of each kani/*.rs file:
    // append-to: src/tabs.rs
    // harness: NAME props=C18,C05 kind=complete|bounded tier=quick|thorough timeout=300 obligation=Tabs::expand/E1 bound="..."
"""
import json
import os
import re
import shutil
import subprocess
import sys
import tempfile
import time

VERIF = os.path.dirname(os.path.abspath(__file__))
KDIR = os.path.join(VERIF, "kani")


def units():
    out = []
    if not os.path.isdir(KDIR):
        return out
    for f in sorted(os.listdir(KDIR)):
        if not f.endswith(".rs"):
            continue
        txt = open(os.path.join(KDIR, f), encoding="utf-8").read()
        m = re.search(r"^// append-to:\s*(\S+)", txt, re.M)
        target = m.group(1) if m else None
        for hm in re.finditer(r"^// harness:\s*(\S+)\s+(.*)$", txt, re.M):
            d = {"file": f, "target": target, "name": hm.group(1)}
            for kv in re.finditer(r'(\w+)=("([^"]*)"|\S+)', hm.group(2)):
                d[kv.group(1)] = kv.group(3) if kv.group(3) is not None else kv.group(2)
            d["props"] = d.get("props", "").split(",")
            d["timeout"] = int(d.get("timeout", "300"))
            d.setdefault("kind", "bounded")
            d.setdefault("tier", "quick")
            d.setdefault("obligation", "kani:" + d["name"])
            out.append(d)
    return out


def prepare(repo, work):
    dst = os.path.join(work, "repo")
    shutil.copytree(repo, dst, ignore=shutil.ignore_patterns("target", ".git"))
    if not os.path.exists(os.path.join(dst, "Cargo.lock")) and os.path.exists("/repo/Cargo.lock"):
        shutil.copy("/repo/Cargo.lock", os.path.join(dst, "Cargo.lock"))
    by_target = {}
    for f in sorted(os.listdir(KDIR)):
        if not f.endswith(".rs"):
            continue
        txt = open(os.path.join(KDIR, f), encoding="utf-8").read()
        m = re.search(r"^// append-to:\s*(\S+)", txt, re.M)
        if not m:
            continue
        by_target.setdefault(m.group(1), []).append((f, txt))
    for target, lst in by_target.items():
        p = os.path.join(dst, target)
        if not os.path.exists(p):
            raise RuntimeError("kani: target file %s missing" % target)
        with open(p, "a", encoding="utf-8") as fh:
            for (f, txt) in lst:
                fh.write("\n// ---- appended by /verif/kani_run.py from kani/%s ----\n" % f)
                fh.write(txt)
    os.makedirs(os.path.join(dst, ".cargo"), exist_ok=True)
    with open(os.path.join(dst, ".cargo", "config.toml"), "w") as fh:
        fh.write("[net]\noffline = true\n")
    return dst


def run_harnesses(repo, hs, jobs=8):
    """returns {name: {status: ok|fail|undecided, secs, detail}}"""
    res = {}
    if not hs:
        return res, []
    work = tempfile.mkdtemp(prefix="avt-kani-")
    cmds = []
    try:
        try:
            dst = prepare(repo, work)
        except Exception as e:
            for h in hs:
                res[h["name"]] = {"status": "undecided", "secs": 0, "detail": str(e)}
            return res, cmds
        env = dict(os.environ, CARGO_NET_OFFLINE="true", CARGO_TARGET_DIR=os.path.join(work, "target"))
        tmax = max(h["timeout"] for h in hs)
        cmd = ["cargo", "kani", "-Z", "unstable-options", "-Z", "function-contracts", "-Z", "stubbing",
               "--harness-timeout", "%ds" % tmax, "--output-format", "terse", "-j", str(min(jobs, len(hs))), "--exact"]
        for h in hs:
            cmd += ["--harness", "%s::verif_kani_%s::%s" % (mod_path(h["target"]), h["file"][:-3], h["name"])]
        cmds.append("CARGO_NET_OFFLINE=true " + " ".join(cmd))
        t0 = time.time()
        try:
            p = subprocess.run(cmd, cwd=dst, env=env, stdout=subprocess.PIPE, stderr=subprocess.STDOUT, text=True,
                               timeout=tmax * max(1, (len(hs) + jobs - 1) // jobs) + 600)
            out = p.stdout
        except subprocess.TimeoutExpired as e:
            out = (e.stdout or "") if isinstance(e.stdout, str) else ""
            out += "\nOVERALL TIMEOUT\n"
        secs = time.time() - t0
        open(os.path.join(VERIF, ".cache", "kani-last.log"), "w").write(out) if os.path.isdir(os.path.join(VERIF, ".cache")) else None
        # parse output: with -j each thread prints "Thread N: Checking harness X..." and later
        # a block "Thread N: \nVERIFICATION RESULT ... VERIFICATION:- ..."; a thread handles
        # several harnesses one after the other, in the order of its "Checking" lines
        thread_q = {}
        for m in re.finditer(r"^(?:Thread (\d+): )?Checking harness (\S+?)\.\.\.", out, re.M):
            thread_q.setdefault(m.group(1) or "0", []).append(m.group(2))
        blocks = {}
        parts = re.split(r"^(?=Thread \d+: *$)", out, flags=re.M)
        seen_idx = {}
        for part in parts:
            m = re.match(r"Thread (\d+): *\n", part)
            if not m or "VERIFICATION:-" not in part:
                continue
            t = m.group(1)
            k = seen_idx.get(t, 0)
            seen_idx[t] = k + 1
            if t in thread_q and k < len(thread_q[t]):
                blocks[thread_q[t][k]] = part
        if not blocks and len(hs) == 1:
            blocks["%s::verif_kani_%s::%s" % (mod_path(hs[0]["target"]), hs[0]["file"][:-3], hs[0]["name"])] = out
        for h in hs:
            full = "%s::verif_kani_%s::%s" % (mod_path(h["target"]), h["file"][:-3], h["name"])
            st = "undecided"
            detail = ""
            blk = blocks.get(full, "")
            mt = re.search(r"Verification Time: ([0-9.]+)s", blk)
            hsecs = float(mt.group(1)) if mt else secs
            if "VERIFICATION:- SUCCESSFUL" in blk:
                st = "ok"
                if re.search(r"\*\* 0 of \d+ cover properties satisfied", blk):
                    st = "undecided"
                    detail = "cover property unreachable (vacuous harness)"
            elif "VERIFICATION:- FAILED" in blk:
                if re.search(r"timed out|out of memory|CBMC failed", blk, re.I) and "Failed Checks:" not in blk:
                    st = "timeout"
                    detail = "CBMC timeout / resource failure"
                elif re.search(r"Failed Checks: .*unwinding assertion", blk) and not re.search(r"Failed Checks: (?!.*unwinding assertion)", blk):
                    st = "undecided"
                    detail = "unwinding bound too small"
                else:
                    st = "fail"
                    detail = "\n".join(l for l in blk.split("\n") if "Failed Checks" in l or "File:" in l)[:3000]
            elif not blk:
                detail = "no result for harness (build error or name mismatch)\n" + out[-1500:]
            else:
                detail = blk[-1500:]
            mc = re.search(r"\*\* (\d+) of (\d+) failed", blk)
            mv = re.search(r"\*\* (\d+) of (\d+) cover properties satisfied", blk)
            res[h["name"]] = {"status": st, "secs": round(hsecs, 1), "detail": detail,
                              "checks": int(mc.group(2)) if mc else 0, "covers": int(mv.group(1)) if mv else 0}
    finally:
        shutil.rmtree(work, ignore_errors=True)
    return res, cmds


def mod_path(target):
    # src/terminal/dirty_lines.rs -> terminal::dirty_lines
    return target[len("src/"):-len(".rs")].replace("/", "::")


def setup(repo):
    """compile Kani's library once (first cargo kani run is slow)"""
    return 0


def run_for_property(repo, prop, tier):
    hs = [u for u in units() if prop in u["props"] and (tier == "thorough" or u["tier"] == "quick")]
    out = {"violations": [], "undecided": [], "obligations": 0, "samples": [], "units": [], "cmds": [], "trusted": [],
           "bounded": 0, "cbmc_checks": 0, "covers_hit": 0}
    skipped = [u for u in units() if prop in u["props"] and u not in hs]
    if not hs:
        for u in skipped:
            out["units"].append({"harness": u["name"], "status": "not run in this tier", "kind": u["kind"], "bound": u.get("bound", "")})
        return out
    res, cmds = run_harnesses(repo, hs)
    out["cmds"] = cmds
    for h in hs:
        r = res.get(h["name"], {"status": "undecided", "secs": 0, "detail": "no result"})
        if h["kind"] == "complete":
            out["obligations"] += 1
        else:
            out["bounded"] += 1
        out["cbmc_checks"] += r.get("checks", 0)
        out["covers_hit"] += r.get("covers", 0)
        out["units"].append({"harness": h["name"], "appended_to": h["target"], "status": r["status"], "kind": h["kind"],
                             "bound": h.get("bound", ""), "secs": r["secs"], "checks_obligation": h["obligation"]})
        out["samples"].append({"obligation": "kani:%s (%s%s) checks %s on the real %s" % (
            h["name"], h["kind"], (", " + h["bound"]) if h.get("bound") else "", h["obligation"], h["target"])})
        if h["kind"] == "bounded":
            out["trusted"].append("kani/%s: %s holds beyond the bound (%s) - bounded stand-in, not proved" % (h["file"], h["obligation"], h.get("bound", "")))
        if r["status"] == "fail":
            out["violations"].append({"obligation": h["obligation"], "tags": h["props"], "engine": "kani", "message": "Kani harness %s failed" % h["name"],
                                      "file": h["target"], "line": None, "rendered": r["detail"], "clause": None})
        elif r["status"] == "timeout":
            # resource exhaustion of the bounded model checker is not a verdict about the code and
            # depends on machine load: recorded, the unit is simply not counted
            out.setdefault("timeouts", []).append(h["name"])
            if h["kind"] == "complete":
                out["obligations"] -= 1
        elif r["status"] != "ok":
            out["undecided"].append("%s: %s" % (h["name"], r["detail"][-300:]))
    for u in skipped:
        out["units"].append({"harness": u["name"], "status": "not run in this tier", "kind": u["kind"], "bound": u.get("bound", "")})
    return out


if __name__ == "__main__":
    import argparse
    ap = argparse.ArgumentParser()
    ap.add_argument("--repo", default="/repo")
    ap.add_argument("--only", action="append")
    ap.add_argument("-j", type=int, default=8)
    a = ap.parse_args()
    hs = [u for u in units() if not a.only or u["name"] in a.only]
    res, cmds = run_harnesses(a.repo, hs, a.j)
    for k, v in res.items():
        print(k, v["status"], v["secs"])
        if v["status"] != "ok":
            print(v["detail"])
